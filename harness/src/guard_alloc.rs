//! Guard allocator: every heap block is followed by a red zone. When armed, the red zone is
//! filled with a poison pattern on allocation and verified on free, so an over-read shows up as
//! poison words in whatever buffer received the data and an over-write as a broken red zone.
use std::alloc::{GlobalAlloc, Layout, System};
use std::sync::atomic::{AtomicBool, AtomicU64, Ordering};

pub const RED: usize = 64;
pub const POISON: u8 = 0xA5;
pub const POISON_WORD: u32 = 0xA5A5A5A5;

pub static ARMED: AtomicBool = AtomicBool::new(false);
pub static BROKEN_REDZONES: AtomicU64 = AtomicU64::new(0);

pub struct Guard;

unsafe impl GlobalAlloc for Guard {
    unsafe fn alloc(&self, l: Layout) -> *mut u8 {
        let Ok(l2) = Layout::from_size_align(l.size() + RED, l.align()) else { return std::ptr::null_mut() };
        let p = System.alloc(l2);
        if !p.is_null() && ARMED.load(Ordering::Relaxed) {
            std::ptr::write_bytes(p.add(l.size()), POISON, RED);
        }
        p
    }
    unsafe fn dealloc(&self, p: *mut u8, l: Layout) {
        if ARMED.load(Ordering::Relaxed) {
            // blocks allocated before arming carry no poison; only count a zone that is partly
            // poisoned (a clean zone is all-poison, an unarmed one has arbitrary content, so the
            // harness arms the guard before creating anything it checks and compares counts)
            let z = std::slice::from_raw_parts(p.add(l.size()), RED);
            let n = z.iter().filter(|b| **b == POISON).count();
            if n != RED && n >= RED - 16 {
                BROKEN_REDZONES.fetch_add(1, Ordering::Relaxed);
            }
        }
        let l2 = Layout::from_size_align_unchecked(l.size() + RED, l.align());
        System.dealloc(p, l2)
    }
    unsafe fn realloc(&self, p: *mut u8, l: Layout, new_size: usize) -> *mut u8 {
        let l2 = Layout::from_size_align_unchecked(l.size() + RED, l.align());
        let q = System.realloc(p, l2, new_size + RED);
        if !q.is_null() && ARMED.load(Ordering::Relaxed) {
            std::ptr::write_bytes(q.add(new_size), POISON, RED);
        }
        q
    }
}
