//! Blind operation-sequence driver ("observation is an operation").
//!
//! The subject engine executes an operation sequence in which read-only queries appear only
//! where the sequence puts them. After every operation the subject's *clone* is observed (the
//! clone carries the subject's caches, so a stale cache shows up without disturbing the
//! subject) and compared with a reference: a freshly built engine that replayed the logical
//! token history and never saw any query or rollback.
use crate::common::*;
use crate::engine::*;
use crate::jobs::Job;
use llguidance::Matcher;
use serde_json::json;
use std::collections::{BTreeMap, HashMap, HashSet};

#[derive(Clone, Debug, PartialEq, Eq, Hash)]
pub enum Op {
    Commit(u32),
    Rollback(usize),
    Reset,
    Query(u8),
}

impl Op {
    pub fn show(&self) -> String {
        match self {
            Op::Commit(t) => format!("+{t}"),
            Op::Rollback(k) => format!("rollback({k})"),
            Op::Reset => "reset".to_string(),
            Op::Query(q) => format!("query{q}"),
        }
    }
}

#[derive(Clone, Debug, PartialEq, Eq)]
pub struct Obs {
    pub mask: Result<Vec<u32>, String>,
    pub accepting: bool,
    pub stopped: bool,
    pub ff_bytes: Vec<u8>,
    pub ff_tokens: Vec<u32>,
    pub valid1: Vec<u32>,
}

impl Obs {
    pub fn hash(&self) -> u64 {
        fnv(format!("{:?}", self).as_bytes())
    }
    fn diff(&self, o: &Obs) -> String {
        let mut d = vec![];
        if self.mask.as_ref().ok() != o.mask.as_ref().ok() || self.mask.is_ok() != o.mask.is_ok() {
            d.push("mask");
        }
        if self.accepting != o.accepting {
            d.push("accepting");
        }
        if self.stopped != o.stopped {
            d.push("stopped");
        }
        if self.ff_bytes != o.ff_bytes {
            d.push("ff_bytes");
        }
        if self.ff_tokens != o.ff_tokens {
            d.push("ff_tokens");
        }
        if self.valid1 != o.valid1 {
            d.push("validate");
        }
        d.join("+")
    }
}

/// Full observation; consumes the engine given (always a clone or a reference engine).
/// Order: mask first (what a sampling loop does), then the rest.
pub fn observe(mut m: Matcher, n_vocab: u32, canonical: bool) -> Obs {
    let stopped = m.is_stopped();
    let mask = if stopped {
        Err("stopped".to_string())
    } else {
        match m.clone().compute_mask() {
            Ok(mk) => Ok(mask_to_vec(&mk)),
            Err(_) => Err("mask-error".to_string()),
        }
    };
    let accepting = m.clone().is_accepting().unwrap_or(false);
    let ff_bytes = m.clone().compute_ff_bytes();
    let ff_tokens = if canonical { m.clone().compute_ff_tokens() } else { vec![] };
    let mut valid1 = vec![];
    if !stopped {
        for t in 0..n_vocab {
            if m.validate_tokens(&[t]).unwrap_or(0) == 1 {
                valid1.push(t);
            }
        }
    }
    Obs { mask, accepting, stopped, ff_bytes, ff_tokens, valid1 }
}

pub struct OpSeqCfg {
    pub n_mut: usize,
    pub n_query: usize,
    pub rollback: bool,
    pub reset: bool,
    pub max_branch: usize,
    /// extra oracles: invalidate_bias_cache and deep_clone must not change the observation
    pub cache_oracles: bool,
    pub node_cap: u64,
}

pub struct OpSeqOut {
    pub nodes: u64,
    pub transitions: u64,
    pub ref_histories: u64,
    pub counters: BTreeMap<String, u64>,
    pub outcomes: HashSet<u64>,
    pub violation: Option<Violation>,
    pub cap_hit: bool,
    pub inadmissible: bool,
}

struct Driver<'a> {
    job: &'a Job,
    slices: &'a Slices,
    f: &'a Factory,
    cfg: &'a OpSeqCfg,
    refs: HashMap<Vec<u32>, Option<Obs>>,
    out: OpSeqOut,
    prop_check: &'a str,
}

impl<'a> Driver<'a> {
    fn reference(&mut self, hist: &[u32]) -> Option<Obs> {
        if let Some(o) = self.refs.get(hist) {
            return o.clone();
        }
        self.out.ref_histories += 1;
        let o = match replay(self.f, &self.job.item.g, hist) {
            Ok(m) => Some(observe(m, self.f.n_vocab as u32, self.job.vocab.canonical)),
            Err(_) => None,
        };
        self.refs.insert(hist.to_vec(), o.clone());
        o
    }

    fn viol(&mut self, check: &str, class: &str, ops: &[Op], hist: &[u32], what: serde_json::Value) {
        if self.out.violation.is_some() {
            return;
        }
        let opss: Vec<String> = ops.iter().map(|o| o.show()).collect();
        self.out.violation = Some(Violation {
            check: format!("{}:{}", self.prop_check, check),
            class: class.to_string(),
            signature: format!("{}|{}|{}|{}", check, self.job.item.name, self.job.vocab.name, opss.join(",")),
            detail: json!({
                "kind": "opseq",
                "grammar": self.job.item.g.to_json(),
                "vocab": self.job.vocab.to_json(),
                "slices": self.slices.to_json(),
                "ops": opss,
                "logical_history": hist,
                "what": what,
            }),
        });
    }

    fn count(&mut self, k: &str) {
        *self.out.counters.entry(k.to_string()).or_insert(0) += 1;
    }

    /// run a query bundle on the subject itself (this is the point: it leaves caches behind)
    fn run_query(&mut self, s: &mut Matcher, q: u8, exp: &Obs) -> Result<(), (String, serde_json::Value)> {
        let nv = self.f.n_vocab as u32;
        match q {
            0 => {
                let r = s.compute_mask().map(|m| mask_to_vec(&m)).map_err(|_| "mask-error".to_string());
                if r.as_ref().ok() != exp.mask.as_ref().ok() {
                    return Err(("query-mask".into(), json!({"got": r.ok(), "expected": exp.mask.clone().ok()})));
                }
            }
            1 => {
                let mut v = vec![];
                for t in 0..nv {
                    if s.validate_tokens(&[t]).unwrap_or(0) == 1 {
                        v.push(t);
                    }
                }
                if v != exp.valid1 {
                    return Err(("query-validate".into(), json!({"got": v, "expected": exp.valid1})));
                }
                let r = s.compute_mask().map(|m| mask_to_vec(&m)).map_err(|_| "mask-error".to_string());
                if r.as_ref().ok() != exp.mask.as_ref().ok() {
                    return Err(("query-mask-after-validate".into(), json!({"got": r.ok(), "expected": exp.mask.clone().ok()})));
                }
            }
            2 => {
                let b = s.compute_ff_bytes();
                if b != exp.ff_bytes {
                    return Err(("query-ff-bytes".into(), json!({"got": show(&b), "expected": show(&exp.ff_bytes)})));
                }
                let r = s.compute_mask().map(|m| mask_to_vec(&m)).map_err(|_| "mask-error".to_string());
                if r.as_ref().ok() != exp.mask.as_ref().ok() {
                    return Err(("query-mask-after-ffbytes".into(), json!({"got": r.ok(), "expected": exp.mask.clone().ok()})));
                }
            }
            3 => {
                let a = s.is_accepting().unwrap_or(false);
                if a != exp.accepting {
                    return Err(("query-accepting".into(), json!({"got": a, "expected": exp.accepting})));
                }
            }
            4 => {
                let t = s.compute_ff_tokens();
                if t != exp.ff_tokens {
                    return Err(("query-ff-tokens".into(), json!({"got": t, "expected": exp.ff_tokens})));
                }
            }
            _ => {
                // pairs over the first tokens, then mask twice
                let lim = nv.min(5);
                for a in 0..lim {
                    for b in 0..lim {
                        let _ = s.validate_tokens(&[a, b]);
                    }
                }
                let r1 = s.compute_mask().map(|m| mask_to_vec(&m)).ok();
                let r2 = s.compute_mask().map(|m| mask_to_vec(&m)).ok();
                if r1 != r2 || r1 != exp.mask.clone().ok() {
                    return Err(("query-mask-twice".into(), json!({"first": r1, "second": r2, "expected": exp.mask.clone().ok()})));
                }
            }
        }
        Ok(())
    }

    fn dfs(&mut self, s: &Matcher, hist: &mut Vec<u32>, ops: &mut Vec<Op>, n_mut: usize, n_query: usize) {
        if self.out.violation.is_some() || self.out.inadmissible {
            return;
        }
        if self.out.nodes >= self.cfg.node_cap {
            self.out.cap_hit = true;
            return;
        }
        self.out.nodes += 1;
        crate::watchdog::beat();
        let nv = self.f.n_vocab as u32;
        let canonical = self.job.vocab.canonical;
        let Some(exp) = self.reference(hist) else {
            // the logical history does not replay on a fresh engine: subject accepted what the
            // reference refuses
            self.viol("history_not_replayable", "subject-accepted-what-fresh-engine-refuses", ops, hist, json!({}));
            return;
        };
        if let Err(e) = &exp.mask {
            if e == "mask-error" && exp.ff_bytes.len() > 200 {
                self.out.inadmissible = true;
                return;
            }
        }
        if canonical {
            let trie = self.f.env.tok_trie();
            if exp.ff_bytes.iter().any(|b| *b != 0xFF && trie.token_id(&[*b]).is_none()) {
                // a canonical tokenizer must be able to tokenise every byte the grammar forces
                self.out.inadmissible = true;
                return;
            }
        }
        // observe the subject's clone
        let got = observe(s.clone(), nv, canonical);
        self.out.outcomes.insert(got.hash());
        if got != exp {
            let d = got.diff(&exp);
            let has_rb = ops.iter().any(|o| matches!(o, Op::Rollback(_) | Op::Reset));
            let class = if has_rb { "stale-state-after-rollback" } else { "query-left-trace" };
            self.viol("obs_vs_fresh", class, ops, hist, json!({"differs_in": d, "subject": format!("{:?}", got), "fresh": format!("{:?}", exp)}));
            return;
        }
        if self.cfg.cache_oracles {
            let mut inv = s.clone();
            inv.invalidate_bias_cache();
            let o2 = observe(inv, nv, canonical);
            if o2 != exp {
                self.viol("obs_after_invalidate", "query-left-trace", ops, hist, json!({"differs_in": o2.diff(&exp)}));
                return;
            }
            let o3 = observe(s.deep_clone(), nv, canonical);
            if o3 != exp {
                self.viol("obs_deep_clone", "query-left-trace", ops, hist, json!({"differs_in": o3.diff(&exp)}));
                return;
            }
        }
        // query operations
        // a state whose mask is empty without being a stop (the vocabulary has no token for the only byte the
        // grammar allows next — the job's alphabet does not cover it) ends the engine at the next mask
        // computation: that is stop semantics (C03 / C18 with byte-covering vocabularies), not caching
        if exp.mask.is_err() && !exp.stopped {
            self.count("states_with_uncovered_forced_byte");
        }
        if n_query > 0 && !matches!(ops.last(), Some(Op::Query(_))) && !exp.stopped && exp.mask.is_ok() {
            let qs: Vec<u8> = if canonical { vec![0, 1, 2, 3, 4, 5] } else { vec![0, 1, 2, 3, 5] };
            for q in qs {
                let mut s2 = s.clone();
                self.out.transitions += 1;
                if let Err((c, what)) = self.run_query(&mut s2, q, &exp) {
                    ops.push(Op::Query(q));
                    self.viol(&c, "query-result-wrong", ops, hist, what);
                    ops.pop();
                    return;
                }
                if s2.is_error() {
                    ops.push(Op::Query(q));
                    self.viol("query_poisoned_engine", "query-result-wrong", ops, hist, json!({"err": s2.get_error()}));
                    ops.pop();
                    return;
                }
                self.count("queries");
                ops.push(Op::Query(q));
                self.dfs(&s2, hist, ops, n_mut, n_query - 1);
                ops.pop();
            }
        }
        if n_mut == 0 {
            return;
        }
        // commits of legal tokens
        if let Ok(mask) = &exp.mask {
            let mut legal: Vec<u32> = mask.clone();
            if legal.len() > self.cfg.max_branch {
                // keep EOS-like (last) tokens and the lowest ids; deterministic bound
                let eos_all: Vec<u32> = self.f.env.tok_trie().eos_tokens().iter().copied().filter(|e| legal.contains(e)).collect();
                legal.truncate(self.cfg.max_branch.saturating_sub(eos_all.len()).max(1));
                for e in eos_all {
                    if !legal.contains(&e) {
                        legal.push(e);
                    }
                }
                self.count("branch_truncated");
            }
            for t in legal {
                let mut s2 = s.clone();
                self.out.transitions += 1;
                if let Err(e) = s2.consume_token(t) {
                    let msg = e.to_string();
                    if crate::props::c01::is_resource_limit(&msg) {
                        self.out.inadmissible = true;
                        return;
                    }
                    ops.push(Op::Commit(t));
                    let has_rb = ops.iter().any(|o| matches!(o, Op::Rollback(_) | Op::Reset));
                    let class = if has_rb { "stale-state-after-rollback" } else { "query-left-trace" };
                    self.viol("legal_commit_failed", class, ops, hist, json!({"token": t, "err": msg}));
                    ops.pop();
                    return;
                }
                hist.push(t);
                ops.push(Op::Commit(t));
                self.dfs(&s2, hist, ops, n_mut - 1, n_query);
                ops.pop();
                hist.pop();
            }
        }
        if self.cfg.rollback {
            for k in 1..=hist.len() {
                let mut s2 = s.clone();
                self.out.transitions += 1;
                ops.push(Op::Rollback(k));
                if let Err(e) = s2.rollback(k) {
                    self.viol("rollback_failed", "rollback-refused", ops, hist, json!({"k": k, "err": e.to_string()}));
                    ops.pop();
                    return;
                }
                self.count("rollbacks");
                let saved: Vec<u32> = hist[hist.len() - k..].to_vec();
                if exp.stopped {
                    self.count("rollbacks_from_stopped");
                }
                hist.truncate(hist.len() - k);
                self.dfs(&s2, hist, ops, n_mut - 1, n_query);
                hist.extend_from_slice(&saved);
                ops.pop();
            }
        }
        if self.cfg.reset && !hist.is_empty() {
            let mut s2 = s.clone();
            self.out.transitions += 1;
            ops.push(Op::Reset);
            if let Err(e) = s2.reset() {
                self.viol("reset_failed", "rollback-refused", ops, hist, json!({"err": e.to_string()}));
                ops.pop();
                return;
            }
            let saved = hist.clone();
            hist.clear();
            self.dfs(&s2, hist, ops, n_mut - 1, n_query);
            *hist = saved;
            ops.pop();
        }
    }
}

pub fn run_opseq(job: &Job, slices: &Slices, cfg: &OpSeqCfg, prop_check: &str) -> OpSeqOut {
    let empty = |inad: bool| OpSeqOut {
        nodes: 0,
        transitions: 0,
        ref_histories: 0,
        counters: BTreeMap::new(),
        outcomes: HashSet::new(),
        violation: None,
        cap_hit: false,
        inadmissible: inad,
    };
    let Ok(f) = Factory::new(&job.vocab, slices) else { return empty(true) };
    let Ok(root) = f.try_matcher(&job.item.g) else { return empty(true) };
    // iterative deepening on the number of mutations: a cap leaves a cleanly described region
    let mut d = Driver { job, slices, f: &f, cfg, refs: HashMap::new(), out: empty(false), prop_check };
    let mut completed = 0;
    let mut total_nodes = 0;
    let mut total_trans = 0;
    for depth in 1..=cfg.n_mut {
        d.out.nodes = 0;
        d.out.transitions = 0;
        d.out.cap_hit = false;
        let mut hist = vec![];
        let mut ops = vec![];
        d.dfs(&root, &mut hist, &mut ops, depth, cfg.n_query);
        total_nodes += d.out.nodes;
        total_trans += d.out.transitions;
        if d.out.violation.is_some() || d.out.inadmissible {
            break;
        }
        if d.out.cap_hit {
            break;
        }
        completed = depth;
    }
    d.out.nodes = total_nodes;
    d.out.transitions = total_trans;
    d.out.counters.insert(format!("jobs_completed_mutation_depth_{completed}"), 1);
    d.out
}

/// Plain replay of an op list (no explorer): prints subject vs fresh observations.
pub fn replay_ops(f: &Factory, g: &GrammarSpec, canonical: bool, ops: &[String]) -> (Obs, Option<Obs>, Vec<u32>) {
    let mut s = f.matcher(g);
    let mut hist: Vec<u32> = vec![];
    let nv = f.n_vocab as u32;
    for o in ops {
        if let Some(t) = o.strip_prefix('+') {
            let t: u32 = t.parse().unwrap();
            let r = s.consume_token(t);
            println!("  {o} -> {}", if r.is_ok() { "ok".into() } else { format!("ERR {}", r.unwrap_err()) });
            hist.push(t);
        } else if let Some(k) = o.strip_prefix("rollback(") {
            let k: usize = k.trim_end_matches(')').parse().unwrap();
            let r = s.rollback(k);
            println!("  {o} -> {}", if r.is_ok() { "ok".into() } else { format!("ERR {}", r.unwrap_err()) });
            hist.truncate(hist.len().saturating_sub(k));
        } else if o == "reset" {
            let _ = s.reset();
            hist.clear();
            println!("  reset");
        } else if let Some(q) = o.strip_prefix("query") {
            let q: u8 = q.parse().unwrap();
            match q {
                0 => { let _ = s.compute_mask(); }
                1 => { for t in 0..nv { let _ = s.validate_tokens(&[t]); } let _ = s.compute_mask(); }
                2 => { let _ = s.compute_ff_bytes(); let _ = s.compute_mask(); }
                3 => { let _ = s.is_accepting(); }
                4 => { let _ = s.compute_ff_tokens(); }
                _ => { for a in 0..nv.min(5) { for b in 0..nv.min(5) { let _ = s.validate_tokens(&[a, b]); } } let _ = s.compute_mask(); let _ = s.compute_mask(); }
            }
            println!("  {o}");
        }
    }
    let got = observe(s.clone(), nv, canonical);
    let exp = replay(f, g, &hist).ok().map(|m| observe(m, nv, canonical));
    (got, exp, hist)
}
