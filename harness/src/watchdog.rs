//! Watchdog: an engine call that never returns, or eats the machine's memory, becomes a verdict
//! (VIOLATION with the job that was running) instead of a hung or OOM-killed check.
//!
//! Every harness thread that drives an engine owns a slot; `beat()` records the thread's CPU
//! clock (engine.rs beats whenever an engine is built, the exploration loops beat per state).
//! The watchdog thread compares each slot's *thread CPU time* since its last beat with a
//! generous limit — wall time and machine load play no role, an idle or descheduled thread
//! never trips it — and watches the process RSS.
use crate::common::{Coverage, Ctx, Violation};
use serde_json::{json, Value};
use std::cell::RefCell;
use std::sync::atomic::{AtomicU64, Ordering};
use std::sync::{Arc, Mutex};

pub struct Slot {
    cpu_at_beat_ns: AtomicU64,
    desc: Mutex<Value>,
    clock: libc::clockid_t,
}

static SLOTS: Mutex<Vec<Arc<Slot>>> = Mutex::new(Vec::new());

thread_local! {
    static MY: RefCell<Option<Arc<Slot>>> = const { RefCell::new(None) };
}

fn clock_ns(clock: libc::clockid_t) -> Option<u64> {
    let mut ts = libc::timespec { tv_sec: 0, tv_nsec: 0 };
    let r = unsafe { libc::clock_gettime(clock, &mut ts) };
    if r != 0 {
        return None;
    }
    Some(ts.tv_sec as u64 * 1_000_000_000 + ts.tv_nsec as u64)
}

fn my_slot() -> Arc<Slot> {
    MY.with(|m| {
        let mut m = m.borrow_mut();
        if let Some(s) = m.as_ref() {
            return s.clone();
        }
        let mut clock: libc::clockid_t = 0;
        unsafe { libc::pthread_getcpuclockid(libc::pthread_self(), &mut clock) };
        let s = Arc::new(Slot { cpu_at_beat_ns: AtomicU64::new(clock_ns(clock).unwrap_or(0)), desc: Mutex::new(Value::Null), clock });
        SLOTS.lock().unwrap().push(s.clone());
        *m = Some(s.clone());
        s
    })
}

/// progress mark of the calling thread
pub fn beat() {
    let s = my_slot();
    if let Some(now) = clock_ns(s.clock) {
        let prev = s.cpu_at_beat_ns.swap(now, Ordering::Relaxed);
        MAX_GAP_NS.fetch_max(now.saturating_sub(prev), Ordering::Relaxed);
    }
}

static MAX_GAP_NS: AtomicU64 = AtomicU64::new(0);

/// longest stretch of thread CPU time between two progress marks seen in this run (milliseconds)
pub fn max_gap_ms() -> u64 {
    MAX_GAP_NS.load(Ordering::Relaxed) / 1_000_000
}

/// what the calling thread is working on (shown in the violation if it never progresses again)
pub fn describe(v: Value) {
    let s = my_slot();
    *s.desc.lock().unwrap() = v;
    beat();
}

fn rss_bytes() -> u64 {
    let s = std::fs::read_to_string("/proc/self/statm").unwrap_or_default();
    s.split_whitespace().nth(1).and_then(|x| x.parse::<u64>().ok()).unwrap_or(0) * 4096
}

static CRASHED: std::sync::atomic::AtomicBool = std::sync::atomic::AtomicBool::new(false);
static CRASH_SIG: std::sync::atomic::AtomicI32 = std::sync::atomic::AtomicI32::new(0);
static CRASH_SLOT: std::sync::atomic::AtomicPtr<Slot> = std::sync::atomic::AtomicPtr::new(std::ptr::null_mut());

/// fatal signal on a harness thread (abort after a stack overflow or allocation failure, SIGSEGV,
/// SIGBUS, SIGILL, SIGFPE): remember which slot crashed, park the thread, let the watchdog thread
/// report the verdict. Nothing here allocates or locks.
extern "C" fn on_fatal(sig: libc::c_int) {
    if !CRASHED.swap(true, Ordering::SeqCst) {
        let p = MY.try_with(|m| m.try_borrow().ok().and_then(|b| b.as_ref().map(|a| Arc::as_ptr(a) as *mut Slot))).ok().flatten().unwrap_or(std::ptr::null_mut());
        CRASH_SLOT.store(p, Ordering::SeqCst);
        CRASH_SIG.store(sig, Ordering::SeqCst);
    }
    for _ in 0..600 {
        unsafe { libc::usleep(100_000) };
    }
    unsafe { libc::_exit(3) };
}

fn install_fatal_handlers() {
    unsafe {
        for sig in [libc::SIGABRT, libc::SIGSEGV, libc::SIGBUS, libc::SIGILL, libc::SIGFPE] {
            let mut sa: libc::sigaction = std::mem::zeroed();
            sa.sa_sigaction = on_fatal as usize;
            sa.sa_flags = libc::SA_ONSTACK;
            libc::sigemptyset(&mut sa.sa_mask);
            libc::sigaction(sig, &sa, std::ptr::null_mut());
        }
    }
}

/// `llgmc selftest-crash <abort|overflow>`: the watchdog's own test (a described job crashes)
pub fn selftest_crash(kind: &str) {
    let kind = kind.to_string();
    let h = std::thread::Builder::new().stack_size(1 << 20).spawn(move || {
        describe(json!({"selftest": "deliberate crash", "kind": kind}));
        if kind == "overflow" {
            #[inline(never)]
            fn rec(n: u64) -> u64 {
                let mut a = [n; 256];
                std::hint::black_box(&mut a);
                if std::hint::black_box(n) == u64::MAX { 0 } else { rec(n + 1).wrapping_add(a[(n % 256) as usize]) }
            }
            println!("{}", rec(0));
        } else {
            std::process::abort();
        }
    });
    let _ = h.unwrap().join();
}

pub fn start(ctx: &'static Ctx) {
    install_fatal_handlers();
    let cpu_limit_s: f64 = std::env::var("VERIF_WATCHDOG_CPU_S").ok().and_then(|s| s.parse().ok()).unwrap_or(ctx.tier.pick(120.0, 900.0));
    let mem_limit: u64 = std::env::var("VERIF_WATCHDOG_MEM_GB").ok().and_then(|s| s.parse::<u64>().ok()).unwrap_or(24) << 30;
    // backstop: an allocation beyond this aborts the process instead of taking the machine down
    unsafe {
        let lim = libc::rlimit { rlim_cur: 56 << 30, rlim_max: 56 << 30 };
        libc::setrlimit(libc::RLIMIT_AS, &lim);
    }
    std::thread::spawn(move || loop {
        std::thread::sleep(std::time::Duration::from_millis(200));
        if CRASHED.load(Ordering::SeqCst) {
            std::thread::sleep(std::time::Duration::from_millis(50));
            let p = CRASH_SLOT.load(Ordering::SeqCst);
            let desc = if p.is_null() { Value::Null } else { unsafe { (*p).desc.try_lock().map(|d| d.clone()).unwrap_or(Value::Null) } };
            let sig = CRASH_SIG.load(Ordering::SeqCst);
            let name = match sig {
                libc::SIGABRT => "SIGABRT (abort: stack overflow, allocation failure or an explicit abort)",
                libc::SIGSEGV => "SIGSEGV",
                libc::SIGBUS => "SIGBUS",
                libc::SIGILL => "SIGILL",
                libc::SIGFPE => "SIGFPE",
                _ => "fatal signal",
            };
            ctx.violation(Violation {
                check: "crash".into(),
                class: "engine-crash".into(),
                signature: format!("crash|{}|{}", sig, desc),
                detail: json!({"kind": "crash", "job": desc, "signal": name, "note": "the process received a fatal signal on the thread working on this job; without this handler the check would have died with no verdict"}),
            });
            let code = ctx.finish(Coverage::StateGraph { rule: "run cut short by a fatal signal in the code under test; counters cover the part explored until then".into() });
            std::process::exit(code);
        }
        let slots: Vec<Arc<Slot>> = {
            // slots of threads that have exited (C14 spawns threads per schedule) are dropped
            let mut g = SLOTS.lock().unwrap();
            g.retain(|s| clock_ns(s.clock).is_some());
            g.clone()
        };
        let mut worst: Option<(f64, Arc<Slot>)> = None;
        for s in slots {
            let Some(now) = clock_ns(s.clock) else { continue };
            let since = now.saturating_sub(s.cpu_at_beat_ns.load(Ordering::Relaxed)) as f64 / 1e9;
            if worst.as_ref().map_or(true, |w| since > w.0) {
                worst = Some((since, s));
            }
        }
        let rss = rss_bytes();
        let trip = match &worst {
            Some((since, _)) if *since > cpu_limit_s => Some(format!("no progress for {:.0} CPU-seconds of its thread (limit {:.0})", since, cpu_limit_s)),
            Some((since, _)) if rss > mem_limit && *since > 1.0 => Some(format!("process memory reached {:.1} GB (limit {} GB) while this job made no progress for {:.1} CPU-seconds", rss as f64 / (1u64 << 30) as f64, mem_limit >> 30, since)),
            _ => None,
        };
        if let (Some(what), Some((_, s))) = (trip, worst.as_ref()) {
            let desc = s.desc.lock().map(|d| d.clone()).unwrap_or(Value::Null);
            ctx.violation(Violation {
                check: "watchdog".into(),
                class: "engine-call-runaway".into(),
                signature: format!("runaway|{}", desc),
                detail: json!({"kind": "runaway", "job": desc, "what": what, "note": "the engine call in progress on this thread did not return; the property cannot hold for a state whose query has no answer"}),
            });
            let code = ctx.finish(Coverage::StateGraph { rule: "run cut short by the watchdog (an engine call did not return within the CPU / memory limit); counters cover the part explored until then".into() });
            std::process::exit(code);
        }
        if rss > mem_limit {
            eprintln!("MACHINERY-ERROR: process memory {:.1} GB over the limit with every job progressing (harness footprint)", rss as f64 / (1u64 << 30) as f64);
            println!("MACHINERY-ERROR property={} memory limit exceeded by the harness itself", ctx.prop);
            std::process::exit(2);
        }
    });
}
