//! Bounded families of JSON schemas built from keyword templates with small hole domains.
use serde_json::{json, Value};

/// numeric schemas: type x bound combinations over a small grid (used by C03, C06, C07)
pub fn numeric_schemas(small: bool) -> Vec<Value> {
    let mut out = vec![];
    let bounds: Vec<(Option<f64>, Option<f64>)> = if small {
        vec![(Some(0.0), Some(20.0)), (Some(-5.0), Some(5.0)), (Some(3.0), None), (None, Some(-2.0)), (Some(-1.5), Some(2.25)), (Some(7.0), Some(7.0))]
    } else {
        vec![
            (Some(0.0), Some(20.0)), (Some(-5.0), Some(5.0)), (Some(3.0), None), (None, Some(-2.0)), (Some(-1.5), Some(2.25)), (Some(7.0), Some(7.0)),
            (Some(99.0), Some(1001.0)), (Some(-120.0), Some(-80.0)), (Some(0.5), Some(0.75)), (Some(-0.001), Some(0.001)), (None, None), (Some(10.0), Some(12.5)),
        ]
    };
    for ty in ["integer", "number"] {
        for (lo, hi) in bounds.iter() {
            for excl in 0..4 {
                let mut s = json!({"type": ty});
                if let Some(lo) = lo {
                    if excl & 1 == 1 {
                        s["exclusiveMinimum"] = num(*lo);
                    } else {
                        s["minimum"] = num(*lo);
                    }
                } else if excl & 1 == 1 {
                    continue;
                }
                if let Some(hi) = hi {
                    if excl & 2 == 2 {
                        s["exclusiveMaximum"] = num(*hi);
                    } else {
                        s["maximum"] = num(*hi);
                    }
                } else if excl & 2 == 2 {
                    continue;
                }
                out.push(s.clone());
                for m in [num(3.0), num(7.0), num(0.5)] {
                    if ty == "integer" && m == num(0.5) {
                        continue;
                    }
                    if small && m != num(3.0) {
                        continue;
                    }
                    let mut s2 = s.clone();
                    s2["multipleOf"] = m;
                    out.push(s2);
                }
            }
        }
        // narrow two-sided ranges with multipleOf on either side of zero: with and without a multiple inside
        // (the ones without must be refused, never compiled into a lexeme with an empty language)
        for (lo, hi, m) in [(-11.0, -7.0, 6.0), (7.0, 11.0, 6.0), (-5.0, -1.0, 6.0), (1.0, 5.0, 6.0), (-2.5, -0.5, 3.0), (0.5, 2.5, 3.0), (-11.0, -7.0, 4.0), (7.0, 11.0, 4.0), (-13.0, -12.0, 6.0)] {
            out.push(json!({"type": ty, "minimum": num(lo), "maximum": num(hi), "multipleOf": num(m)}));
        }
        // both keywords of one side at once, in either order of tightness
        out.push(json!({"type": ty, "minimum": 0, "maximum": 5, "exclusiveMaximum": 10}));
        out.push(json!({"type": ty, "minimum": 0, "maximum": 10, "exclusiveMaximum": 5}));
        out.push(json!({"type": ty, "minimum": 5, "exclusiveMinimum": 2, "maximum": 9}));
        out.push(json!({"type": ty, "minimum": 2, "exclusiveMinimum": 5, "maximum": 9}));
        out.push(json!({"type": ty, "minimum": 3, "exclusiveMinimum": 3, "maximum": 6, "exclusiveMaximum": 6}));
    }
    out
}

pub fn num(x: f64) -> Value {
    if x.fract() == 0.0 && x.abs() < 1e15 {
        json!(x as i64)
    } else {
        json!(x)
    }
}

pub fn string_schemas(small: bool) -> Vec<Value> {
    let mut out = vec![];
    for (mn, mx) in [(None, Some(0)), (None, Some(2)), (Some(1), Some(3)), (Some(2), None), (Some(2), Some(2)), (None, None)] {
        let mut s = json!({"type": "string"});
        if let Some(mn) = mn {
            s["minLength"] = json!(mn);
        }
        if let Some(mx) = mx {
            s["maxLength"] = json!(mx);
        }
        out.push(s);
    }
    for p in ["^[a-c]{2}x$", "^a+b?$", "ab", "^(é|b){1,2}$", "^[^a]$", "x$"] {
        out.push(json!({"type": "string", "pattern": p}));
    }
    out.push(json!({"type": "string", "pattern": "^[ab]+$", "minLength": 2, "maxLength": 3}));
    let fmts: Vec<&str> = if small {
        vec!["date", "time", "uuid", "ipv4"]
    } else {
        vec!["date", "time", "date-time", "duration", "email", "hostname", "ipv4", "ipv6", "uuid"]
    };
    for f in fmts {
        out.push(json!({"type": "string", "format": f}));
    }
    out
}

pub fn array_schemas() -> Vec<Value> {
    let mut out = vec![];
    let items = [json!({"type": "boolean"}), json!({"type": "integer", "minimum": 0, "maximum": 3}), json!({"enum": ["a", "ab"]})];
    for it in items.iter() {
        for (mn, mx) in [(None, None), (Some(1), Some(2)), (None, Some(0)), (Some(2), Some(2)), (Some(2), None)] {
            let mut s = json!({"type": "array", "items": it});
            if let Some(mn) = mn {
                s["minItems"] = json!(mn);
            }
            if let Some(mx) = mx {
                s["maxItems"] = json!(mx);
            }
            out.push(s);
        }
    }
    out.push(json!({"type": "array", "prefixItems": [{"type": "boolean"}, {"type": "null"}], "items": false}));
    out.push(json!({"type": "array", "prefixItems": [{"type": "boolean"}, {"type": "null"}], "items": {"type": "integer"}, "minItems": 1, "maxItems": 3}));
    out.push(json!({"type": "array", "prefixItems": [{"const": "x"}], "minItems": 1}));
    out.push(json!({"type": "array", "items": {"type": "array", "items": {"type": "null"}, "maxItems": 1}, "maxItems": 2}));
    out
}

pub fn object_schemas() -> Vec<Value> {
    let mut out = vec![];
    let props = json!({"a": {"type": "boolean"}, "b": {"type": "null"}, "c": {"enum": [1, 2]}});
    for req in [json!([]), json!(["a"]), json!(["b"]), json!(["a", "c"]), json!(["a", "b", "c"])] {
        for addl in [json!(false), json!({"type": "integer"}), Value::Null] {
            let mut s = json!({"type": "object", "properties": props, "required": req});
            if !addl.is_null() {
                s["additionalProperties"] = addl.clone();
            }
            out.push(s);
        }
    }
    out.push(json!({"type": "object", "additionalProperties": {"type": "boolean"}, "minProperties": 1, "maxProperties": 2}));
    out.push(json!({"type": "object", "properties": {"a": {"const": 1}}, "additionalProperties": {"const": 2}}));
    out.push(json!({"type": "object", "properties": {"a": {"const": 1}}, "required": ["a"], "minProperties": 2, "additionalProperties": {"type": "null"}}));
    out.push(json!({"type": "object", "patternProperties": {"^x": {"type": "integer"}}, "additionalProperties": false}));
    out.push(json!({"type": "object", "patternProperties": {"^x": {"type": "integer"}}, "properties": {"xa": {"type": "integer", "minimum": 5}}, "additionalProperties": false}));
    out.push(json!({"type": "object", "properties": {"k": {"type": "string", "maxLength": 1}, "n": {"type": "object", "properties": {"z": {"type": "null"}}, "required": ["z"], "additionalProperties": false}}, "required": ["n"], "additionalProperties": false}));
    out.push(json!({"type": "object", "properties": {"a\"b": {"type": "null"}, "é": {"type": "boolean"}}, "additionalProperties": false}));
    // long names that share a long prefix (anything keyed by a truncated or hashed name confuses them), side by
    // side and in different nested objects
    out.push(json!({"type": "object", "properties": {"billing_address_line1": {"type": "integer"}, "billing_address_line2": {"type": "boolean"}}, "required": ["billing_address_line1", "billing_address_line2"], "additionalProperties": false}));
    out.push(json!({"type": "object", "properties": {"a": {"type": "object", "properties": {"customer_shipping_address_primary": {"type": "null"}}, "required": ["customer_shipping_address_primary"], "additionalProperties": false},
        "b": {"type": "object", "properties": {"customer_shipping_address_secondary": {"type": "null"}}, "required": ["customer_shipping_address_secondary"], "additionalProperties": false}}, "required": ["a", "b"], "additionalProperties": false}));
    out.push(json!({"enum": ["the quick brown fox jumps over the lazy dog", "the quick brown fox jumps over the lazy cat", "the quick brown fox"]}));
    out.push(json!({"type": "array", "prefixItems": [{"const": "0123456789012345678901234567890a"}, {"const": "0123456789012345678901234567890b"}], "items": false, "minItems": 2}));
    out
}

pub fn combinator_schemas() -> Vec<Value> {
    vec![
        json!({"enum": ["hello", "help", "helium", 12, true, null, 1.5, [1], {"a": 1}]}),
        json!({"const": {"k": [1, "x"]}}),
        json!({"const": 5}),
        json!({"const": "a\nb"}),
        json!({"anyOf": [{"type": "string", "maxLength": 2}, {"type": "integer"}, {"type": "array", "items": {"type": "boolean"}, "maxItems": 1}]}),
        json!({"anyOf": [{"type": "object", "properties": {"t": {"const": "a"}, "v": {"type": "integer"}}, "required": ["t", "v"], "additionalProperties": false},
                          {"type": "object", "properties": {"t": {"const": "b"}, "v": {"type": "string", "maxLength": 1}}, "required": ["t", "v"], "additionalProperties": false}]}),
        json!({"allOf": [{"type": "integer", "minimum": 3}, {"maximum": 12, "multipleOf": 3}]}),
        json!({"allOf": [{"type": "string", "minLength": 1}, {"maxLength": 2}]}),
        json!({"allOf": [{"type": "object", "properties": {"a": {"type": "integer"}}, "required": ["a"]}, {"properties": {"b": {"type": "null"}}, "additionalProperties": false}]}),
        json!({"oneOf": [{"type": "integer"}, {"type": "string", "maxLength": 1}]}),
        json!({"oneOf": [{"const": "a"}, {"const": "b"}, {"type": "null"}]}),
        json!({"$defs": {"n": {"type": "object", "properties": {"v": {"type": "integer", "minimum": 0, "maximum": 9}, "next": {"$ref": "#/$defs/n"}}, "required": ["v"], "additionalProperties": false}}, "$ref": "#/$defs/n"}),
        json!({"$defs": {"t": {"anyOf": [{"type": "null"}, {"type": "array", "items": {"$ref": "#/$defs/t"}, "maxItems": 2}]}}, "$ref": "#/$defs/t"}),
        json!({"type": ["integer", "null", "string"], "maxLength": 1, "minimum": 0, "maximum": 5}),
        json!({"type": "object", "properties": {"a": {"type": "integer"}}, "required": ["a"], "additionalProperties": false, "x-guidance": {"whitespace_flexible": true}}),
        json!({"type": "array", "items": {"type": "boolean"}, "maxItems": 2, "x-guidance": {"item_separator": ", ", "key_separator": ": "}}),
        json!({"type": "boolean"}),
        json!({"type": "null"}),
        json!({}),
        json!(true),
        // $ref / anyOf / enum / const followed by sibling array, object and string keywords
        json!({"$defs": {"t": {"type": "array", "prefixItems": [{"type": "integer"}, {"type": "boolean"}], "items": false}}, "$ref": "#/$defs/t", "prefixItems": [{"minimum": 0}]}),
        json!({"$defs": {"t": {"type": "array", "prefixItems": [{"type": "integer"}, {"type": "boolean"}], "items": false}}, "$ref": "#/$defs/t", "minItems": 1}),
        json!({"enum": [[1, true], [2, false], [], [3]], "prefixItems": [{"type": "integer", "minimum": 2}]}),
        json!({"const": [1, "a"], "prefixItems": [{"type": "integer"}]}),
        json!({"anyOf": [{"type": "array", "prefixItems": [{"const": 1}, {"const": 2}], "items": false}, {"type": "null"}], "minItems": 1}),
        json!({"anyOf": [{"type": "array", "prefixItems": [{"const": 1}, {"const": 2}], "items": {"type": "null"}, "maxItems": 3}, {"type": "null"}], "prefixItems": [{"type": "integer"}], "items": {"type": ["null", "integer"]}}),
        json!({"$defs": {"o": {"type": "object", "properties": {"a": {"type": "integer"}}, "required": ["a"]}}, "$ref": "#/$defs/o", "properties": {"b": {"type": "null"}}, "additionalProperties": false}),
        json!({"$defs": {"s": {"type": "string", "minLength": 1}}, "$ref": "#/$defs/s", "maxLength": 2}),
        json!({"$defs": {"n": {"type": "integer", "minimum": 2}}, "$ref": "#/$defs/n", "maximum": 4}),
        json!({"type": "array", "prefixItems": [{"type": "integer"}], "items": false, "minItems": 1}),
        // numeric bounds of both kinds met through $ref / anyOf / allOf intersections
        json!({"$defs": {"n": {"type": "integer", "minimum": 0, "maximum": 5}}, "$ref": "#/$defs/n", "exclusiveMaximum": 10}),
        json!({"$defs": {"n": {"type": "integer", "minimum": 0, "exclusiveMaximum": 10}}, "$ref": "#/$defs/n", "maximum": 5}),
        json!({"$defs": {"n": {"type": "number", "exclusiveMinimum": 0, "maximum": 5}}, "$ref": "#/$defs/n", "minimum": 2}),
        json!({"anyOf": [{"type": "integer", "minimum": 0, "maximum": 5}, {"type": "null"}], "exclusiveMaximum": 10}),
        json!({"allOf": [{"type": "integer", "minimum": 1, "exclusiveMaximum": 8}, {"maximum": 4, "exclusiveMinimum": 0}]}),
        // enum / const intersected with sibling keywords
        json!({"type": "string", "enum": ["é", "ab", "x", "éé"], "minLength": 2}),
        json!({"enum": ["é", "ab", "abc", "😀", "😀😀"], "maxLength": 1}),
        json!({"enum": ["é", "ab", "abc", 7], "minLength": 2, "maxLength": 2}),
        json!({"const": "éa", "minLength": 2}),
        json!({"allOf": [{"enum": ["€", "ab", "x"]}, {"type": "string", "minLength": 2}]}),
        json!({"enum": [1, 5, 10, "a", 2.5], "minimum": 3}),
        json!({"enum": [1.5, 2, 3, "3"], "type": "integer"}),
        json!({"enum": [2, 4, 9, 12], "multipleOf": 3, "maximum": 10}),
        json!({"enum": ["2024-02-30", "2024-02-28", "2023-02-29"], "format": "date"}),
        json!({"enum": ["ab", "b", "ba"], "pattern": "^a"}),
        json!({"enum": [[1], [1, 2], []], "minItems": 1, "maxItems": 1}),
        json!({"enum": [{"a": 1}, {"a": "x"}, {}], "required": ["a"], "properties": {"a": {"type": "integer"}}}),
        json!({"type": ["string", "integer"], "enum": ["é", 1, 22, "ab"], "minLength": 2, "minimum": 5}),
    ]
}

/// numeric leaf schemas placed where several lexemes are live at once (array item, object value,
/// anyOf alternative)
pub fn nested_numeric_schemas(small: bool) -> Vec<Value> {
    let mut out = vec![];
    for s in numeric_schemas(small) {
        let has_mult = s.get("multipleOf").is_some();
        let two_sided = (s.get("minimum").is_some() || s.get("exclusiveMinimum").is_some()) && (s.get("maximum").is_some() || s.get("exclusiveMaximum").is_some());
        if !(has_mult || two_sided) {
            continue;
        }
        if small && !has_mult {
            continue;
        }
        out.push(json!({"type": "array", "items": s, "maxItems": 2}));
        out.push(json!({"type": "object", "properties": {"n": s}, "required": ["n"], "additionalProperties": false}));
        if has_mult {
            out.push(json!({"anyOf": [s, {"type": "string", "maxLength": 1}, {"type": "null"}]}));
        }
    }
    out
}

/// Pairwise intersections: every ordered pair of "half schemas" drawn from a small keyword menu,
/// joined by allOf, and (for a fixed third of the pairs) by $ref + sibling keywords. Object halves
/// vary properties / patternProperties / additionalProperties / required, array halves vary
/// prefixItems / items / minItems / maxItems.
pub fn intersection_schemas(small: bool) -> Vec<Value> {
    fn halves(menus: &[(&str, Vec<Option<Value>>)], ty: &str) -> Vec<Value> {
        let mut out: Vec<Value> = vec![json!({"type": ty})];
        for (key, opts) in menus {
            let mut next = vec![];
            for h in out.iter() {
                for o in opts.iter() {
                    let mut h2 = h.clone();
                    if let Some(v) = o {
                        if *key == "len" {
                            for (k, x) in v.as_object().unwrap() {
                                h2[k] = x.clone();
                            }
                        } else {
                            h2[*key] = v.clone();
                        }
                    }
                    next.push(h2);
                }
            }
            out = next;
        }
        out.retain(|h| h.as_object().unwrap().len() > 1);
        out
    }
    let a = json!({"a": {"type": "integer"}});
    let ab = json!({"a": {"type": "integer"}, "b": {"type": "null"}});
    let px = json!({"^x": {"type": "integer"}});
    let pa = json!({"^a": {"type": "integer", "maximum": 3}});
    let obj_menus: Vec<(&str, Vec<Option<Value>>)> = if small {
        vec![
            ("properties", vec![None, Some(a.clone())]),
            ("patternProperties", vec![None, Some(px.clone())]),
            ("additionalProperties", vec![None, Some(json!(false)), Some(json!({"type": "null"}))]),
        ]
    } else {
        vec![
            ("properties", vec![None, Some(a.clone()), Some(ab.clone())]),
            ("patternProperties", vec![None, Some(px.clone()), Some(pa.clone())]),
            ("additionalProperties", vec![None, Some(json!(false)), Some(json!({"type": "null"})), Some(json!({"type": "integer"}))]),
            ("required", vec![None, Some(json!(["a"]))]),
        ]
    };
    let arr_menus: Vec<(&str, Vec<Option<Value>>)> = if small {
        vec![
            ("prefixItems", vec![None, Some(json!([{"type": "integer"}, {"type": "boolean"}]))]),
            ("items", vec![None, Some(json!(false)), Some(json!({"type": "null"}))]),
            ("len", vec![None, Some(json!({"minItems": 1})), Some(json!({"maxItems": 1}))]),
        ]
    } else {
        vec![
            ("prefixItems", vec![None, Some(json!([{"type": "integer"}])), Some(json!([{"type": "integer"}, {"type": "boolean"}]))]),
            ("items", vec![None, Some(json!(false)), Some(json!({"type": "null"})), Some(json!({"type": "integer", "minimum": 2}))]),
            ("len", vec![None, Some(json!({"minItems": 1})), Some(json!({"maxItems": 1})), Some(json!({"minItems": 2, "maxItems": 3}))]),
        ]
    };
    let mut out = vec![];
    for hs in [halves(&obj_menus, "object"), halves(&arr_menus, "array")] {
        for (i, h1) in hs.iter().enumerate() {
            for (j, h2) in hs.iter().enumerate() {
                out.push(json!({"allOf": [h1, h2]}));
                if (i + 2 * j) % 3 == 0 {
                    let mut s = json!({"$defs": {"h": h1}, "$ref": "#/$defs/h"});
                    for (k, v) in h2.as_object().unwrap() {
                        if k != "type" {
                            s[k] = v.clone();
                        }
                    }
                    out.push(s);
                }
            }
        }
    }
    out
}

pub fn all_schemas(small: bool) -> Vec<Value> {
    let mut v = numeric_schemas(small);
    v.extend(nested_numeric_schemas(small));
    v.extend(string_schemas(small));
    v.extend(array_schemas());
    v.extend(object_schemas());
    v.extend(combinator_schemas());
    v
}

/// `$ref` chains: a definition that is only a `$ref` to the next one (d0 -> d1 -> .. -> target), with two
/// slots of a container (required properties p,q / a closed 2-tuple) each referring to any link of
/// the chain — every combination, so heads and inner links are used once, twice, or mixed
pub fn ref_chain_schemas() -> Vec<Value> {
    let targets = [
        json!({"type": "object", "properties": {"x": {"type": "boolean"}}, "required": ["x"], "additionalProperties": false}),
        json!({"enum": ["u", "v"]}),
        json!({"type": "integer", "minimum": 1, "maximum": 3}),
    ];
    let mut out = vec![];
    for target in targets.iter() {
        for len in 2..=3usize {
            let mut defs = serde_json::Map::new();
            for i in 0..len {
                defs.insert(format!("d{i}"), json!({"$ref": format!("#/$defs/d{}", i + 1)}));
            }
            defs.insert(format!("d{len}"), target.clone());
            for a in 0..=len {
                for b in 0..=len {
                    let (ra, rb) = (json!({"$ref": format!("#/$defs/d{a}")}), json!({"$ref": format!("#/$defs/d{b}")}));
                    out.push(json!({"$defs": defs, "type": "object", "properties": {"p": ra, "q": rb}, "required": ["p", "q"], "additionalProperties": false}));
                    if (a + b) % 2 == 0 {
                        out.push(json!({"$defs": defs, "type": "array", "prefixItems": [ra, rb], "items": false, "minItems": 2}));
                    }
                }
            }
            // head of the chain at the root
            out.push(json!({"$defs": defs, "$ref": "#/$defs/d0"}));
        }
    }
    out
}

/// Unsatisfiable leaves in positions where the surrounding schema stays satisfiable (optional property,
/// array items, tuple tail, anyOf alternative, additionalProperties) and in a required position (where the
/// whole schema must be refused): the engine has to prune the leaf, never compile it into a lexeme with an
/// empty language
pub fn unsat_leaf_schemas() -> Vec<Value> {
    let leaves = vec![
        json!({"allOf": [{"const": "a"}, {"const": "b"}]}),
        json!({"const": "a", "enum": ["b", "c"]}),
        json!({"allOf": [{"enum": ["a", "b"]}, {"enum": ["c", "d"]}]}),
        json!({"type": "string", "enum": ["ab", "cd"], "const": "ef"}),
        json!({"type": "integer", "minimum": 5, "maximum": 3}),
        json!({"type": "integer", "minimum": 7, "maximum": 11, "multipleOf": 6}),
        json!({"type": "string", "minLength": 3, "maxLength": 1}),
        json!({"allOf": [{"type": "string"}, {"type": "integer"}]}),
        json!({"const": 1, "type": "string"}),
        json!({"enum": [1, 2], "minimum": 5}),
        json!({"type": "string", "const": "b", "pattern": "^a$"}),
        json!({"type": "array", "items": false, "minItems": 1}),
        json!(false),
    ];
    let mut out = vec![];
    // a pattern whose only matches are names that properties already declares: no further key exists
    out.push(json!({"type": "object", "properties": {"a": {"type": "null"}}, "required": ["a"], "patternProperties": {"^a$": {"type": "null"}}, "additionalProperties": false}));
    out.push(json!({"type": "object", "properties": {"a": {"type": "null"}, "b": {"type": "boolean"}}, "patternProperties": {"^(a|b)$": {"type": "null"}}, "additionalProperties": false}));
    out.push(json!({"type": "object", "properties": {"ab": {"type": "null"}}, "required": ["ab"], "patternProperties": {"^ab$": {}}, "additionalProperties": false, "x-guidance": {"whitespace_flexible": false}}));
    for u in leaves.iter() {
        out.push(json!({"type": "object", "properties": {"k": u, "j": {"type": "null"}}, "additionalProperties": false}));
        out.push(json!({"type": "object", "properties": {"j": {"type": "null"}, "k": u}, "required": ["j"], "additionalProperties": false, "x-guidance": {"whitespace_flexible": false}}));
        out.push(json!({"type": "array", "items": u}));
        out.push(json!({"type": "array", "prefixItems": [{"type": "boolean"}, u], "minItems": 1, "x-guidance": {"whitespace_flexible": false}}));
        out.push(json!({"anyOf": [u, {"type": "null"}]}));
        out.push(json!({"type": "object", "properties": {"j": {"type": "null"}}, "additionalProperties": u}));
        out.push(json!({"type": "object", "properties": {"k": u}, "required": ["k"]}));
    }
    out
}

/// Keyword order around an in-place applicator: the compiler cuts a schema object into chunks at every
/// `allOf` / `anyOf` / `$ref` / `const` / `enum` key and intersects the chunks, so keywords that are defined in
/// terms of each other (additionalProperties vs properties / patternProperties, items vs prefixItems, minimum
/// vs exclusiveMinimum, required vs properties) can end up in different chunks. Every base schema gets a
/// *neutral* applicator (`allOf: [{}]`, `allOf: [{"type": T}]`, `anyOf: [{}]`, `$ref` to an empty definition)
/// at every position of its key order: the language must not change.
pub fn applicator_split_schemas() -> Vec<Value> {
    let bases: Vec<(Value, &str)> = vec![
        (json!({"type": "object", "patternProperties": {"^x-": {"type": "boolean"}}, "additionalProperties": false}), "object"),
        (json!({"type": "object", "properties": {"a": {"type": "null"}}, "patternProperties": {"^x": {"type": "integer", "minimum": 1, "maximum": 2}}, "additionalProperties": false, "required": ["a"]}), "object"),
        (json!({"type": "object", "properties": {"a": {"type": "boolean"}, "b": {"type": "null"}}, "required": ["b"], "additionalProperties": {"type": "integer", "minimum": 0, "maximum": 1}}), "object"),
        (json!({"type": "object", "properties": {"a": {"type": "boolean"}}, "additionalProperties": false, "required": ["a"]}), "object"),
        (json!({"type": "array", "prefixItems": [{"type": "boolean"}, {"type": "null"}], "items": {"type": "integer", "minimum": 0, "maximum": 1}, "minItems": 1, "maxItems": 3}), "array"),
        (json!({"type": "array", "prefixItems": [{"const": "x"}], "items": false}), "array"),
        (json!({"type": "integer", "minimum": 1, "maximum": 5, "multipleOf": 2}), "integer"),
        (json!({"type": "number", "minimum": 1, "exclusiveMaximum": 2.5}), "number"),
        (json!({"type": "string", "minLength": 1, "maxLength": 2}), "string"),
    ];
    let mut out = vec![];
    for (base, ty) in bases.iter() {
        let keys: Vec<(String, Value)> = base.as_object().unwrap().iter().map(|(k, v)| (k.clone(), v.clone())).collect();
        let neutrals: Vec<(&str, Value)> = vec![
            ("allOf", json!([{}])),
            ("allOf", json!([{"type": ty}])),
            ("anyOf", json!([{}])),
            ("$ref", json!("#/$defs/any")),
        ];
        for (nk, nv) in neutrals.iter() {
            for pos in 1..=keys.len() {
                let mut m = serde_json::Map::new();
                if *nk == "$ref" {
                    m.insert("$defs".into(), json!({"any": {}}));
                }
                for (i, (k, v)) in keys.iter().enumerate() {
                    if i == pos {
                        m.insert(nk.to_string(), nv.clone());
                    }
                    m.insert(k.clone(), v.clone());
                }
                if pos == keys.len() {
                    m.insert(nk.to_string(), nv.clone());
                }
                out.push(Value::Object(m));
            }
        }
    }
    out
}

/// all_schemas plus the pairwise intersection family
pub fn all_schemas_x(small: bool) -> Vec<Value> {
    let mut v = all_schemas(small);
    v.extend(applicator_split_schemas());
    v.extend(intersection_schemas(small));
    v.extend(ref_chain_schemas());
    v.extend(unsat_leaf_schemas());
    v
}
