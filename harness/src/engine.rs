//! Building real engines from (grammar, vocabulary, slices) specs.
use crate::vocab::VocabSpec;
use anyhow::Result;
use llguidance::api::{ParserLimits, TopLevelGrammar};
use llguidance::toktrie::{InferenceCapabilities, SimpleVob, TokEnv};
use llguidance::{Matcher, ParserFactory};
use serde_json::{json, Value};

#[derive(Clone, Debug)]
pub enum GrammarSpec {
    Lark(String),
    Json(Value),
    Regex(String),
}

impl GrammarSpec {
    pub fn top(&self) -> TopLevelGrammar {
        match self {
            GrammarSpec::Lark(s) => TopLevelGrammar::from_lark(s.clone()),
            GrammarSpec::Json(v) => TopLevelGrammar::from_json_schema(v.clone()),
            GrammarSpec::Regex(r) => TopLevelGrammar::from_regex(r),
        }
    }
    pub fn to_json(&self) -> Value {
        match self {
            GrammarSpec::Lark(s) => json!({"lark": s}),
            GrammarSpec::Json(v) => json!({"json_schema": v}),
            GrammarSpec::Regex(r) => json!({"regex": r}),
        }
    }
    pub fn from_json(v: &Value) -> Self {
        if let Some(s) = v["lark"].as_str() {
            GrammarSpec::Lark(s.to_string())
        } else if let Some(r) = v["regex"].as_str() {
            GrammarSpec::Regex(r.to_string())
        } else {
            GrammarSpec::Json(v["json_schema"].clone())
        }
    }
    pub fn short(&self) -> String {
        let s = match self {
            GrammarSpec::Lark(s) => format!("lark:{}", s.replace('\n', " ; ")),
            GrammarSpec::Json(v) => format!("json:{}", v),
            GrammarSpec::Regex(r) => format!("regex:{}", r),
        };
        if s.len() > 300 {
            format!("{}…", &s[..s.char_indices().take(300).last().map(|x| x.0).unwrap_or(0)])
        } else {
            s
        }
    }
}

/// Slice configuration of the factory
#[derive(Clone, Debug, PartialEq)]
pub enum Slices {
    None,
    Default,
    List(Vec<String>),
}

impl Slices {
    pub fn to_vec(&self) -> Vec<String> {
        match self {
            Slices::None => vec![],
            Slices::Default => llguidance::earley::SlicedBiasComputer::general_slices(),
            Slices::List(l) => l.clone(),
        }
    }
    pub fn to_json(&self) -> Value {
        match self {
            Slices::None => json!("none"),
            Slices::Default => json!("default"),
            Slices::List(l) => json!(l),
        }
    }
    pub fn from_json(v: &Value) -> Self {
        match v {
            Value::String(s) if s == "default" => Slices::Default,
            Value::Array(a) => Slices::List(a.iter().map(|x| x.as_str().unwrap().to_string()).collect()),
            _ => Slices::None,
        }
    }
}

pub struct Factory {
    pub env: TokEnv,
    pub factory: ParserFactory,
    pub n_vocab: usize,
}

impl Factory {
    pub fn new(vocab: &VocabSpec, slices: &Slices) -> Result<Self> {
        Self::with_limits(vocab, slices, None)
    }

    pub fn with_limits(vocab: &VocabSpec, slices: &Slices, limits: Option<ParserLimits>) -> Result<Self> {
        let env = vocab.build();
        Self::from_env(env, slices, limits)
    }

    /// the same factory with the ff_tokens inference capability switched on (sampling loops that
    /// accept fast-forward tokens from commit_token)
    pub fn with_ff_tokens(vocab: &VocabSpec, slices: &Slices) -> Result<Self> {
        let env = vocab.build();
        let caps = InferenceCapabilities { ff_tokens: true, conditional_ff_tokens: false, backtrack: false, fork: false };
        let mut factory = ParserFactory::new(&env, caps, &slices.to_vec())?;
        factory.quiet();
        factory.limits_mut().verbose_errors = false;
        let n_vocab = env.tok_trie().vocab_size();
        Ok(Factory { env, factory, n_vocab })
    }

    pub fn from_env(env: TokEnv, slices: &Slices, limits: Option<ParserLimits>) -> Result<Self> {
        let caps = InferenceCapabilities {
            ff_tokens: false,
            conditional_ff_tokens: false,
            backtrack: false,
            fork: false,
        };
        let mut factory = ParserFactory::new(&env, caps, &slices.to_vec())?;
        factory.quiet();
        if let Some(l) = limits {
            *factory.limits_mut() = l;
        }
        // shorter errors
        factory.limits_mut().verbose_errors = false;
        let n_vocab = env.tok_trie().vocab_size();
        Ok(Factory { env, factory, n_vocab })
    }

    /// A Matcher (never fails; failure is the Matcher's error state).
    pub fn matcher(&self, g: &GrammarSpec) -> Matcher {
        // watchdog: what this thread works on from here (see watchdog.rs)
        crate::watchdog::describe(serde_json::json!({"grammar": g.to_json(), "vocab_size": self.n_vocab}));
        Matcher::new(self.factory.create_parser(g.top()))
    }

    pub fn matcher_top(&self, g: TopLevelGrammar) -> Matcher {
        Matcher::new(self.factory.create_parser(g))
    }

    pub fn try_matcher(&self, g: &GrammarSpec) -> Result<Matcher, String> {
        let m = self.matcher(g);
        match m.get_error() {
            Some(e) => Err(e),
            None => Ok(m),
        }
    }

    pub fn token_bytes(&self, t: u32) -> Vec<u8> {
        self.env.tok_trie().token(t).to_vec()
    }
}

pub fn mask_to_vec(m: &SimpleVob) -> Vec<u32> {
    m.iter().collect()
}

pub fn mask_hash(m: &SimpleVob) -> u64 {
    let mut h: u64 = 0xcbf29ce484222325;
    for w in m.as_slice() {
        for b in w.to_le_bytes() {
            h ^= b as u64;
            h = h.wrapping_mul(0x100000001b3);
        }
    }
    h
}

/// Replay a token history on a fresh matcher, returns Err on the first failing commit
pub fn replay(f: &Factory, g: &GrammarSpec, hist: &[u32]) -> Result<Matcher, String> {
    let mut m = f.try_matcher(g)?;
    for (i, t) in hist.iter().enumerate() {
        m.consume_token(*t)
            .map_err(|e| format!("replay failed at {i} token {t}: {e}"))?;
    }
    Ok(m)
}
