//! Bounded-exhaustive ("small scope") generation of Lark grammars and regexes on the harness's
//! own AST. The printer produces the text the front end parses; reference models work on the
//! AST, so they never share a parser with the code under test.
use crate::corpus::Item;
use crate::engine::GrammarSpec;
use std::collections::BTreeSet;

#[derive(Clone, Debug, PartialEq, Eq, Hash, PartialOrd, Ord)]
pub enum G {
    /// literal terminal (bytes)
    Lit(Vec<u8>),
    /// single-byte class terminal (set of bytes)
    Class(Vec<u8>),
    Seq(Box<G>, Box<G>),
    Alt(Box<G>, Box<G>),
    Opt(Box<G>),
    Star(Box<G>),
    Plus(Box<G>),
    Rep(Box<G>, u32, u32),
    /// reference to rule index
    Ref(usize),
    Empty,
}

#[derive(Clone, Debug, PartialEq, Eq, Hash, PartialOrd, Ord)]
pub struct Gram {
    /// rules[0] is start
    pub rules: Vec<G>,
}

pub fn rule_name(i: usize) -> String {
    if i == 0 {
        "start".to_string()
    } else {
        format!("r{i}")
    }
}

fn lit_text(b: &[u8]) -> String {
    let mut s = String::from("\"");
    for &c in b {
        match c {
            b'"' => s.push_str("\\\""),
            b'\\' => s.push_str("\\\\"),
            b'\n' => s.push_str("\\n"),
            _ => s.push(c as char),
        }
    }
    s.push('"');
    s
}

impl G {
    pub fn size(&self) -> usize {
        match self {
            G::Lit(_) | G::Class(_) | G::Ref(_) | G::Empty => 1,
            G::Seq(a, b) | G::Alt(a, b) => 1 + a.size() + b.size(),
            G::Opt(a) | G::Star(a) | G::Plus(a) | G::Rep(a, _, _) => 1 + a.size(),
        }
    }

    /// Lark text; prec: 0 = alt context, 1 = seq context, 2 = postfix operand
    pub fn lark(&self, prec: u8) -> String {
        match self {
            G::Lit(b) => lit_text(b),
            G::Class(bs) => {
                let inner: String = bs.iter().map(|b| (*b as char).to_string()).collect();
                format!("/[{}]/", inner)
            }
            G::Ref(i) => rule_name(*i),
            G::Empty => "\"\"".to_string(),
            G::Seq(a, b) => {
                let s = format!("{} {}", a.lark(1), b.lark(1));
                if prec > 1 {
                    format!("({s})")
                } else {
                    s
                }
            }
            G::Alt(a, b) => {
                let s = format!("{} | {}", a.lark(0), b.lark(0));
                if prec > 0 {
                    format!("({s})")
                } else {
                    s
                }
            }
            G::Opt(a) => format!("{}?", a.operand()),
            G::Star(a) => format!("{}*", a.operand()),
            G::Plus(a) => format!("{}+", a.operand()),
            G::Rep(a, m, n) => format!("{}{{{},{}}}", a.operand(), m, n),
        }
    }

    fn operand(&self) -> String {
        if matches!(self, G::Opt(_) | G::Star(_) | G::Plus(_) | G::Rep(..)) {
            format!("({})", self.lark(0))
        } else {
            self.lark(2)
        }
    }

    pub fn has_ref(&self, i: usize) -> bool {
        match self {
            G::Ref(j) => *j == i,
            G::Lit(_) | G::Class(_) | G::Empty => false,
            G::Seq(a, b) | G::Alt(a, b) => a.has_ref(i) || b.has_ref(i),
            G::Opt(a) | G::Star(a) | G::Plus(a) | G::Rep(a, _, _) => a.has_ref(i),
        }
    }
}

impl Gram {
    /// every sub-expression of every rule derives at least one finite string
    pub fn fully_productive(&self) -> bool {
        let n = self.rules.len();
        let mut prod = vec![false; n];
        fn p(e: &G, prod: &[bool]) -> bool {
            match e {
                G::Lit(_) | G::Class(_) | G::Empty => true,
                G::Ref(i) => prod[*i],
                G::Seq(a, b) => p(a, prod) && p(b, prod),
                G::Alt(a, b) => p(a, prod) || p(b, prod),
                G::Opt(_) | G::Star(_) => true,
                G::Plus(a) => p(a, prod),
                G::Rep(a, m, _) => *m == 0 || p(a, prod),
            }
        }
        loop {
            let mut ch = false;
            for i in 0..n {
                if !prod[i] && p(&self.rules[i], &prod) {
                    prod[i] = true;
                    ch = true;
                }
            }
            if !ch {
                break;
            }
        }
        fn all(e: &G, prod: &[bool]) -> bool {
            match e {
                G::Lit(_) | G::Class(_) | G::Empty => true,
                G::Ref(i) => prod[*i],
                G::Seq(a, b) | G::Alt(a, b) => all(a, prod) && all(b, prod),
                G::Opt(a) | G::Star(a) | G::Plus(a) | G::Rep(a, _, _) => all(a, prod),
            }
        }
        prod.iter().all(|x| *x) && self.rules.iter().all(|r| all(r, &prod))
    }

    pub fn lark(&self) -> String {
        self.rules
            .iter()
            .enumerate()
            .map(|(i, r)| format!("{}: {}", rule_name(i), r.lark(0)))
            .collect::<Vec<_>>()
            .join("\n")
    }
}

pub fn default_atoms() -> Vec<G> {
    vec![G::Lit(b"a".to_vec()), G::Lit(b"bc".to_vec()), G::Class(b"de".to_vec())]
}

/// all expressions with exactly `size` nodes over `atoms` and refs to rules < n_rules
pub fn exprs(size: usize, atoms: &[G], n_rules: usize, memo: &mut Vec<Vec<G>>) -> Vec<G> {
    if size < memo.len() && (size == 0 || !memo[size].is_empty()) {
        return memo[size].clone();
    }
    while memo.len() <= size {
        memo.push(vec![]);
    }
    let mut out = vec![];
    if size == 1 {
        out.extend(atoms.iter().cloned());
        for i in 0..n_rules {
            out.push(G::Ref(i));
        }
        out.push(G::Empty);
    } else if size >= 2 {
        let inner = exprs(size - 1, atoms, n_rules, memo);
        for e in inner.iter() {
            if matches!(e, G::Empty) {
                continue;
            }
            out.push(G::Opt(Box::new(e.clone())));
            out.push(G::Star(Box::new(e.clone())));
            out.push(G::Plus(Box::new(e.clone())));
            for (m, n) in [(2u32, 2u32), (1, 3), (0, 2)] {
                out.push(G::Rep(Box::new(e.clone()), m, n));
            }
        }
        if size >= 3 {
            for ls in 1..=(size - 2) {
                let rs = size - 1 - ls;
                let l = exprs(ls, atoms, n_rules, memo);
                let r = exprs(rs, atoms, n_rules, memo);
                for a in l.iter() {
                    for b in r.iter() {
                        if !(matches!(a, G::Empty) || matches!(b, G::Empty)) {
                            out.push(G::Seq(Box::new(a.clone()), Box::new(b.clone())));
                        }
                        if a <= b {
                            out.push(G::Alt(Box::new(a.clone()), Box::new(b.clone())));
                        }
                    }
                }
            }
        }
    }
    memo[size] = out.clone();
    out
}

/// All grammars with total size <= s: one rule (`start`, possibly self-recursive) and two rules
/// (`start` must reference r1).
pub fn grams(s: usize) -> Vec<Gram> {
    let atoms = default_atoms();
    let mut out: BTreeSet<Gram> = BTreeSet::new();
    let mut memo1 = vec![];
    for sz in 1..=s {
        for e in exprs(sz, &atoms, 1, &mut memo1) {
            if matches!(e, G::Ref(_)) {
                continue;
            }
            out.insert(Gram { rules: vec![e] });
        }
    }
    let mut memo2 = vec![];
    for s0 in 1..s {
        for s1 in 1..=(s - s0) {
            if s0 + s1 > s.saturating_sub(0) || s0 + s1 < 3 {
                continue;
            }
            let e0s = exprs(s0, &atoms, 2, &mut memo2);
            let e1s = exprs(s1, &atoms, 2, &mut memo2);
            for e0 in e0s.iter() {
                if !e0.has_ref(1) {
                    continue;
                }
                for e1 in e1s.iter() {
                    if matches!(e1, G::Ref(_)) {
                        continue;
                    }
                    out.insert(Gram { rules: vec![e0.clone(), e1.clone()] });
                }
            }
        }
    }
    out.into_iter().collect()
}

/// Generated Lark items for differential checks (sentences derived by walking masks).
pub fn lark_family(size: usize) -> Vec<Item> {
    use rayon::prelude::*;
    let gs = grams(size);
    gs.par_iter()
        .enumerate()
        .filter_map(|(i, g)| {
            if !g.fully_productive() {
                return None;
            }
            let spec = GrammarSpec::Lark(g.lark());
            let sentences = crate::jobs::derive_sentences(&spec);
            if sentences.is_empty() {
                return None; // does not compile or empty language near the root
            }
            Some(Item { name: format!("gen{}-{}", size, i), g: spec, sentences, core: true })
        })
        .collect()
}
