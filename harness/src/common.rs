//! Shared run context: tiers, budgets, violations, known findings, evidence.
use serde_json::{json, Value};
use std::collections::{BTreeMap, BTreeSet, HashSet};
use std::sync::atomic::{AtomicBool, AtomicU64, Ordering};
use std::sync::Mutex;
use std::time::Instant;

pub const VERIF_DIR: &str = "/verif";

/// where evidence/ and replays/ are written (VERIF_OUT_DIR, default /verif): lets a detached copy
/// of the harness (tools/snap_matrix.sh) run without touching the committed evidence
pub fn out_dir() -> String {
    std::env::var("VERIF_OUT_DIR").unwrap_or_else(|_| VERIF_DIR.to_string())
}

#[derive(Clone, Copy, PartialEq, Eq, Debug)]
pub enum Tier {
    Quick,
    Thorough,
}

impl Tier {
    pub fn name(&self) -> &'static str {
        match self {
            Tier::Quick => "quick",
            Tier::Thorough => "thorough",
        }
    }
    pub fn pick<T>(&self, q: T, t: T) -> T {
        match self {
            Tier::Quick => q,
            Tier::Thorough => t,
        }
    }
}

#[derive(Clone, Debug)]
pub struct Violation {
    /// short name of the sub-check that fired
    pub check: String,
    /// specific signature: what exactly fails (used to match known findings)
    pub signature: String,
    /// class of the failure (coarser; known findings may match on class + site)
    pub class: String,
    /// replayable payload
    pub detail: Value,
}

#[derive(Clone, Debug)]
pub struct KnownFinding {
    pub property: String,
    pub status: String, // "known" | "fixed"
    pub class: Option<String>,
    pub signature: Option<String>,
    pub signature_prefix: Option<String>,
    pub signature_contains: Vec<String>,
    pub what: String,
}

pub struct Ctx {
    pub prop: String,
    pub tier: Tier,
    pub seed: u64,
    pub start: Instant,
    pub budget_s: f64,
    pub violations: Mutex<Vec<Violation>>,
    pub viol_sigs: Mutex<BTreeSet<String>>,
    pub known_seen: Mutex<BTreeSet<String>>,
    pub known: Vec<KnownFinding>,
    pub counters: Mutex<BTreeMap<String, u64>>,
    pub samples: Mutex<Vec<Value>>,
    pub outcomes: Mutex<HashSet<u64>>,
    pub notes: Mutex<Vec<String>>,
    pub cap_hit: AtomicBool,
    pub states: AtomicU64,
    pub transitions: AtomicU64,
    pub validated: AtomicU64,
    pub machinery_errors: Mutex<Vec<String>>,
}

impl Ctx {
    pub fn new(prop: &str, tier: Tier) -> Self {
        let seed = std::env::var("VERIF_SEED")
            .ok()
            .and_then(|s| s.parse::<u64>().ok())
            .unwrap_or(0);
        let budget_s = std::env::var("VERIF_BUDGET_S")
            .ok()
            .and_then(|s| s.parse::<f64>().ok())
            .unwrap_or(tier.pick(120.0, 1500.0));
        // replay artefacts describe the current run only
        let _ = std::fs::remove_dir_all(format!("{}/replays/{}", out_dir(), prop));
        Ctx {
            prop: prop.to_string(),
            tier,
            seed,
            start: Instant::now(),
            budget_s,
            violations: Mutex::new(vec![]),
            viol_sigs: Mutex::new(BTreeSet::new()),
            known_seen: Mutex::new(BTreeSet::new()),
            known: load_known(prop),
            counters: Mutex::new(BTreeMap::new()),
            samples: Mutex::new(vec![]),
            outcomes: Mutex::new(HashSet::new()),
            notes: Mutex::new(vec![]),
            cap_hit: AtomicBool::new(false),
            states: AtomicU64::new(0),
            transitions: AtomicU64::new(0),
            validated: AtomicU64::new(0),
            machinery_errors: Mutex::new(vec![]),
        }
    }

    pub fn quick(&self) -> bool {
        self.tier == Tier::Quick
    }

    pub fn elapsed(&self) -> f64 {
        self.start.elapsed().as_secs_f64()
    }

    /// true when the wall budget of this run is exhausted; callers stop starting new
    /// jobs and the evidence records the cap.
    pub fn over_budget(&self) -> bool {
        if self.elapsed() > self.budget_s {
            self.cap_hit.store(true, Ordering::Relaxed);
            true
        } else {
            false
        }
    }

    pub fn count(&self, name: &str, n: u64) {
        *self.counters.lock().unwrap().entry(name.to_string()).or_insert(0) += n;
    }

    pub fn count_max(&self, name: &str, n: u64) {
        let mut c = self.counters.lock().unwrap();
        let e = c.entry(name.to_string()).or_insert(0);
        if n > *e {
            *e = n;
        }
    }

    pub fn get_count(&self, name: &str) -> u64 {
        *self.counters.lock().unwrap().get(name).unwrap_or(&0)
    }

    pub fn add_counts(&self, m: &BTreeMap<String, u64>) {
        let mut c = self.counters.lock().unwrap();
        for (k, v) in m {
            *c.entry(k.clone()).or_insert(0) += v;
        }
    }

    pub fn note(&self, s: impl Into<String>) {
        self.notes.lock().unwrap().push(s.into());
    }

    pub fn sample(&self, v: Value) {
        let mut s = self.samples.lock().unwrap();
        if s.len() < 12 {
            s.push(v);
        }
    }

    pub fn outcome(&self, h: u64) {
        self.outcomes.lock().unwrap().insert(h);
    }

    pub fn outcomes_extend(&self, hs: impl IntoIterator<Item = u64>) {
        self.outcomes.lock().unwrap().extend(hs);
    }

    pub fn machinery_error(&self, s: impl Into<String>) {
        let s = s.into();
        eprintln!("MACHINERY-ERROR: {s}");
        self.machinery_errors.lock().unwrap().push(s);
    }

    pub fn violation(&self, v: Violation) {
        if let Some(k) = self.match_known(&v) {
            // a recorded finding: reported once as KNOWN-FINDING, never as a violation
            self.count("known_finding_occurrences", 1);
            self.known_seen.lock().unwrap().insert(k.what.clone());
            return;
        }
        let mut sigs = self.viol_sigs.lock().unwrap();
        if sigs.len() >= 400 || !sigs.insert(format!("{}|{}", v.check, v.signature)) {
            self.count("violations_duplicate_or_over_cap", 1);
            return;
        }
        drop(sigs);
        self.violations.lock().unwrap().push(v);
    }

    pub fn has_violations(&self) -> bool {
        !self.violations.lock().unwrap().is_empty()
    }

    /// is this violation one of the recorded known findings?
    pub fn is_known(&self, v: &Violation) -> bool {
        self.match_known(v).is_some()
    }

    fn match_known(&self, v: &Violation) -> Option<&KnownFinding> {
        self.known.iter().find(|k| {
            k.status == "known"
                && k.property == self.prop
                && k.class.as_ref().map_or(true, |c| *c == v.class)
                && k.signature.as_ref().map_or(true, |s| *s == v.signature)
                && k
                    .signature_prefix
                    .as_ref()
                    .map_or(true, |s| v.signature.starts_with(s.as_str()))
                && k.signature_contains.iter().all(|s| v.signature.contains(s.as_str()))
                && (k.class.is_some() || k.signature.is_some() || k.signature_prefix.is_some())
        })
    }

    /// Write evidence, print verdict lines, return the process exit code.
    pub fn finish(&self, cov: Coverage) -> i32 {
        let wall = self.elapsed();
        let viols = self.violations.lock().unwrap().clone();
        let mut n_new = 0;
        let mut n_known = self.get_count("known_finding_occurrences");
        let mut known_lines = BTreeSet::new();
        for w in self.known_seen.lock().unwrap().iter() {
            known_lines.insert(format!("KNOWN-FINDING: property={} {}", self.prop, w));
        }
        let mut out_lines = vec![];
        for v in viols.iter() {
            if let Some(k) = self.match_known(v) {
                n_known += 1;
                known_lines.insert(format!(
                    "KNOWN-FINDING: property={} {}",
                    self.prop, k.what
                ));
            } else {
                n_new += 1;
                let path = write_replay(&self.prop, v);
                if out_lines.len() < 25 {
                    out_lines.push(format!(
                        "VIOLATION property={} replay={}",
                        self.prop, path
                    ));
                    eprintln!(
                        "  [{}] class={} signature={}",
                        v.check, v.class, v.signature
                    );
                }
            }
        }
        let mut merrs = self.machinery_errors.lock().unwrap().clone();
        if n_new > 0 {
            // a run cut short by a violation is not vacuous: the violation is the verdict
            merrs.retain(|m| !m.starts_with("vacuous run"));
        }
        if self.cap_hit.load(Ordering::Relaxed) && merrs.iter().any(|m| m.starts_with("vacuous run")) {
            // the wall budget ran out (heavily loaded machine) before some part of the check ran:
            // reported as a capped run with the counters as they are, not as a machinery failure
            for m in merrs.iter().filter(|m| m.starts_with("vacuous run")) {
                self.notes.lock().unwrap().push(format!("budget exhausted before every part ran ({m})"));
            }
            merrs.retain(|m| !m.starts_with("vacuous run"));
        }
        self.count_max("watchdog_max_cpu_ms_between_progress_marks", crate::watchdog::max_gap_ms());
        let counters = self.counters.lock().unwrap().clone();
        let mut coverage = match cov {
            Coverage::StateGraph { rule } => json!({
                "states": self.states.load(Ordering::Relaxed),
                "transitions": self.transitions.load(Ordering::Relaxed),
                "traces_validated_against_impl": self.validated.load(Ordering::Relaxed),
                "rule": rule,
            }),
            Coverage::Enumeration { evaluations, rule } => json!({
                "evaluations": evaluations,
                "rule": rule,
            }),
        };
        let distinct = self.outcomes.lock().unwrap().len() as u64;
        coverage["distinct_nontrivial"] = json!(distinct);
        coverage["distinct_observed_outcomes"] = json!(distinct);
        coverage["samples"] = json!(self.samples.lock().unwrap().clone());
        let capped = self.cap_hit.load(Ordering::Relaxed);
        coverage["exhaustive"] = json!(!capped && merrs.is_empty());
        coverage["cap_hit"] = json!(capped);
        coverage["counters"] = json!(counters);
        coverage["notes"] = json!(self.notes.lock().unwrap().clone());
        coverage["known_findings_seen"] = json!(n_known);
        let ev = json!({
            "property_id": self.prop,
            "tier": self.tier.name(),
            "seed": self.seed,
            "level": "model_checking",
            "coverage": coverage,
            "assumptions": [
                "rustc/std, serde_json and the harness reference models are trusted; see DESIGN.md 1.9",
                "only the enumerated grammars, vocabularies and bounds are covered; see coverage.rule"
            ],
            "wall_s": wall,
            "violations": n_new,
        });
        let path = format!("{}/evidence/{}.json", out_dir(), self.prop);
        let _ = std::fs::create_dir_all(format!("{}/evidence", out_dir()));
        if !merrs.is_empty() {
            // machinery failure: no verdict, no evidence
            let _ = std::fs::remove_file(&path);
            for m in merrs.iter().take(10) {
                println!("MACHINERY-ERROR property={} {}", self.prop, m);
            }
            return 2;
        }
        std::fs::write(&path, serde_json::to_string_pretty(&ev).unwrap()).unwrap();
        for l in known_lines {
            println!("{l}");
        }
        for l in out_lines {
            println!("{l}");
        }
        println!(
            "{} {}: states={} transitions={} distinct_outcomes={} violations={} known={} cap_hit={} wall={:.1}s",
            self.prop,
            self.tier.name(),
            self.states.load(Ordering::Relaxed),
            self.transitions.load(Ordering::Relaxed),
            distinct,
            n_new,
            n_known,
            capped,
            wall
        );
        if n_new > 0 {
            1
        } else {
            0
        }
    }
}

pub enum Coverage {
    StateGraph { rule: String },
    Enumeration { evaluations: u64, rule: String },
}

fn load_known(prop: &str) -> Vec<KnownFinding> {
    let path = format!("{}/known_findings.json", VERIF_DIR);
    let Ok(s) = std::fs::read_to_string(&path) else {
        return vec![];
    };
    let Ok(v) = serde_json::from_str::<Value>(&s) else {
        eprintln!("warning: cannot parse {path}");
        return vec![];
    };
    let mut r = vec![];
    if let Some(arr) = v["findings"].as_array() {
        for e in arr {
            let g = |k: &str| e[k].as_str().map(|s| s.to_string());
            let kf = KnownFinding {
                property: g("property").unwrap_or_default(),
                status: g("status").unwrap_or_default(),
                class: g("class"),
                signature: g("signature"),
                signature_prefix: g("signature_prefix"),
                signature_contains: e["signature_contains"].as_array().map(|a| a.iter().filter_map(|x| x.as_str().map(|s| s.to_string())).collect()).unwrap_or_default(),
                what: g("what").unwrap_or_default(),
            };
            if kf.property == prop {
                r.push(kf);
            }
        }
    }
    r
}

pub fn fnv(data: &[u8]) -> u64 {
    let mut h: u64 = 0xcbf29ce484222325;
    for b in data {
        h ^= *b as u64;
        h = h.wrapping_mul(0x100000001b3);
    }
    h
}

pub fn hash_u64s(data: &[u64]) -> u64 {
    let mut h: u64 = 0xcbf29ce484222325;
    for w in data {
        for b in w.to_le_bytes() {
            h ^= b as u64;
            h = h.wrapping_mul(0x100000001b3);
        }
    }
    h
}

fn write_replay(prop: &str, v: &Violation) -> String {
    let dir = format!("{}/replays/{}", out_dir(), prop);
    let _ = std::fs::create_dir_all(&dir);
    let body = json!({
        "property": prop,
        "check": v.check,
        "class": v.class,
        "signature": v.signature,
        "detail": v.detail,
    });
    let text = serde_json::to_string_pretty(&body).unwrap();
    let h = fnv(format!("{}|{}", v.check, v.signature).as_bytes());
    let path = format!("{}/{:016x}.json", dir, h);
    let _ = std::fs::write(&path, text);
    path
}

pub fn hex(b: &[u8]) -> String {
    b.iter().map(|x| format!("{:02x}", x)).collect()
}

pub fn unhex(s: &str) -> Vec<u8> {
    (0..s.len() / 2)
        .map(|i| u8::from_str_radix(&s[2 * i..2 * i + 2], 16).unwrap())
        .collect()
}

/// printable rendering of bytes for reports
pub fn show(b: &[u8]) -> String {
    let mut s = String::new();
    for &c in b {
        if (0x20..0x7f).contains(&c) && c != b'\\' {
            s.push(c as char);
        } else {
            s.push_str(&format!("\\x{:02x}", c));
        }
    }
    s
}

/// Run a closure catching panics (the subject is always wrapped).
pub fn guarded<T>(f: impl FnOnce() -> T) -> Result<T, String> {
    match std::panic::catch_unwind(std::panic::AssertUnwindSafe(f)) {
        Ok(v) => Ok(v),
        Err(e) => {
            let msg = if let Some(s) = e.downcast_ref::<&str>() {
                s.to_string()
            } else if let Some(s) = e.downcast_ref::<String>() {
                s.clone()
            } else {
                "panic".to_string()
            };
            Err(msg)
        }
    }
}
