//! First ranks of cl100k_base (copied from the cached tiktoken-rs crate's assets, MIT).
fn b64(s: &str) -> Vec<u8> {
    let mut out = vec![];
    let mut acc: u32 = 0;
    let mut bits = 0;
    for c in s.bytes() {
        let v = match c {
            b'A'..=b'Z' => c - b'A',
            b'a'..=b'z' => c - b'a' + 26,
            b'0'..=b'9' => c - b'0' + 52,
            b'+' => 62,
            b'/' => 63,
            _ => continue,
        } as u32;
        acc = (acc << 6) | v;
        bits += 6;
        if bits >= 8 {
            bits -= 8;
            out.push((acc >> bits) as u8);
            acc &= (1 << bits) - 1;
        }
    }
    out
}

pub fn cl100k_ranks(n: usize) -> Vec<Vec<u8>> {
    let text = include_str!("../../corpus/cl100k_head.tiktoken");
    let mut r = vec![];
    for line in text.lines().take(n) {
        let mut parts = line.split(' ');
        let tok = b64(parts.next().unwrap());
        let rank: usize = parts.next().unwrap().parse().unwrap();
        assert_eq!(rank, r.len());
        r.push(tok);
    }
    r
}
