//! Job construction: alphabets and vocabularies per corpus item; parallel runner.
use crate::common::Ctx;
use crate::corpus::Item;
use crate::engine::{Factory, GrammarSpec, Slices};
use crate::explore::{explore, ExploreCfg};
use crate::vocab::{self, VocabSpec};
use rayon::prelude::*;
use std::collections::BTreeSet;

/// Bytes the grammar allows somewhere near the root (B256 exploration, dedup, small cap),
/// plus bytes of the example sentences.
pub fn discover_alphabet(g: &GrammarSpec, sentences: &[Vec<u8>]) -> Option<(Vec<u8>, Vec<u8>)> {
    let v = vocab::b256();
    let f = Factory::new(&v, &Slices::None).ok()?;
    let root = f.try_matcher(g).ok()?;
    let mut allowed: BTreeSet<u8> = BTreeSet::new();
    let cfg = ExploreCfg { max_depth: 4, max_states: 150, use_key: true };
    explore(root, &cfg, |m, _h, _d| {
        if m.is_stopped() {
            return Some(vec![]);
        }
        let Ok(mask) = m.compute_mask() else { return Some(vec![]) };
        let mut succ = vec![];
        for t in mask.iter() {
            if t < 255 {
                if allowed.insert(t as u8) || succ.len() < 6 {
                    succ.push(t);
                }
            }
        }
        Some(succ)
    });
    let mut alpha: BTreeSet<u8> = BTreeSet::new();
    for s in sentences {
        alpha.extend(s.iter().copied().filter(|b| *b != 0xFF));
    }
    let src = match g {
        GrammarSpec::Lark(s) => s.clone(),
        GrammarSpec::Regex(s) => s.clone(),
        GrammarSpec::Json(v) => v.to_string(),
    };
    let srcb: BTreeSet<u8> = src.bytes().collect();
    let mut extra = 0;
    for b in allowed.iter() {
        if alpha.len() >= 26 {
            break;
        }
        if srcb.contains(b) && alpha.len() < 22 {
            alpha.insert(*b);
        } else if !alpha.contains(b) && extra < 3 {
            alpha.insert(*b);
            extra += 1;
        }
    }
    // foreign bytes: never seen allowed and not in sentences
    let mut foreign = vec![];
    for b in [b'~', b'#', b'Q', 0x80u8, 0x07] {
        if !allowed.contains(&b) && !alpha.contains(&b) && foreign.len() < 2 {
            foreign.push(b);
        }
    }
    Some((alpha.into_iter().collect(), foreign))
}

#[derive(Clone, Copy, PartialEq, Eq, Debug)]
pub enum VKind {
    Bytes,
    Multi2,
    Multi3,
    Multi2Canon,
    Multi3Canon,
    /// Multi2 plus a second end-of-sequence token
    Multi2TwoEos,
    B256,
    B256Canon,
    Tik(usize),
    TikCanon(usize),
}

pub fn make_vocab(kind: VKind, alpha: &[u8], foreign: &[u8], sentences: &[Vec<u8>]) -> VocabSpec {
    let mut a: Vec<u8> = alpha.to_vec();
    a.extend_from_slice(foreign);
    let sents: Vec<&[u8]> = sentences.iter().map(|s| s.as_slice()).collect();
    // sub-alphabet for the exhaustive short strings: at most 5 bytes taken from the sentences
    let mut sub: Vec<u8> = vec![];
    for s in sentences {
        for b in s {
            if !sub.contains(b) && sub.len() < 5 && *b != 0xFF {
                sub.push(*b);
            }
        }
    }
    match kind {
        VKind::Bytes => vocab::bytes_vocab(&a),
        VKind::Multi2 => vocab::multi_vocab(&a, &sub, 2, &sents, true),
        VKind::Multi3 => vocab::multi_vocab(&a, &sub[..sub.len().min(4)], 3, &sents, true),
        VKind::Multi2TwoEos => {
            let mut v = vocab::multi_vocab(&a, &sub, 2, &sents, true);
            let at = v.tokens.len() - 1;
            v.tokens.insert(at, b"\xFF<eos2>".to_vec());
            v.eos = v.tokens.len() as u32 - 1;
            v.extra_eos = vec![v.eos - 1];
            v.name = format!("{}+eos2", v.name);
            v
        }
        VKind::Multi2Canon => vocab::multi_vocab(&a, &sub, 2, &sents, false).canonical(true),
        VKind::Multi3Canon => vocab::multi_vocab(&a, &sub[..sub.len().min(4)], 3, &sents, false).canonical(true),
        VKind::B256 => vocab::b256(),
        VKind::B256Canon => vocab::b256().canonical(true),
        VKind::Tik(n) => vocab::tiktoken_vocab(n, false),
        VKind::TikCanon(n) => vocab::tiktoken_vocab(n, true),
    }
}

pub struct Job {
    pub item: Item,
    pub vocab: VocabSpec,
    pub kind: VKind,
}

pub fn make_jobs(items: &[Item], kinds: &[VKind]) -> Vec<Job> {
    let per_item: Vec<Vec<Job>> = items
        .par_iter()
        .map(|it| {
            let Some((alpha, foreign)) = discover_alphabet(&it.g, &it.sentences) else {
                return vec![];
            };
            kinds
                .iter()
                .map(|k| Job {
                    item: it.clone(),
                    vocab: make_vocab(*k, &alpha, &foreign, &it.sentences),
                    kind: *k,
                })
                .collect()
        })
        .collect();
    per_item.into_iter().flatten().collect()
}

/// Run jobs on the rayon pool, largest first is not known, so interleave; stop starting new
/// jobs when the budget is exhausted (recorded as a cap).
pub fn run_jobs<J: Sync>(ctx: &Ctx, jobs: &[J], f: impl Fn(&J) + Sync) {
    let order: Vec<usize> = {
        let n = jobs.len();
        let mut o: Vec<usize> = (0..n).collect();
        if ctx.seed != 0 && n > 1 {
            let k = (ctx.seed as usize) % n;
            o.rotate_left(k);
        }
        o
    };
    order.par_iter().for_each(|i| {
        if ctx.over_budget() {
            ctx.count("jobs_skipped_budget", 1);
            return;
        }
        f(&jobs[*i]);
        ctx.count("jobs_run", 1);
    });
}

/// Derive example sentences for a generated grammar by walking masks on B256:
/// lowest-byte walk and highest-byte walk.
pub fn derive_sentences(g: &GrammarSpec) -> Vec<Vec<u8>> {
    let v = vocab::b256();
    let Ok(f) = Factory::new(&v, &Slices::None) else { return vec![] };
    let mut out = vec![];
    for mode in 0..3 {
        let Ok(mut m) = f.try_matcher(g) else { return vec![] };
        let mut s = vec![];
        for step in 0..14 {
            if m.is_stopped() {
                break;
            }
            let Ok(mask) = m.compute_mask() else { break };
            let toks: Vec<u32> = mask.iter().filter(|t| *t < 255).collect();
            if toks.is_empty() {
                break;
            }
            if m.is_accepting().unwrap_or(false) && step >= 3 + mode {
                break;
            }
            let t = match mode {
                0 => toks[0],
                1 => *toks.last().unwrap(),
                _ => toks[(step * 7 + 3) % toks.len()],
            };
            if m.consume_token(t).is_err() {
                break;
            }
            s.push(t as u8);
        }
        if !s.is_empty() && !out.contains(&s) {
            out.push(s);
        }
    }
    out
}
