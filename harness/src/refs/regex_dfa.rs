//! Reference model for regular expressions: own AST -> Thompson NFA over bytes (own UTF-8
//! range splitter) -> subset DFA; product / complement for & and ~; live-state set.
use std::collections::{BTreeMap, BTreeSet, HashMap};

#[derive(Clone, Debug, PartialEq, Eq, Hash, PartialOrd, Ord)]
pub enum R {
    Eps,
    /// a literal character
    Char(char),
    /// character class: ranges (inclusive), negated?
    Class(Vec<(char, char)>, bool),
    /// `.` : any character except \n
    Dot,
    Cat(Box<R>, Box<R>),
    Alt(Box<R>, Box<R>),
    Star(Box<R>),
    Plus(Box<R>),
    Opt(Box<R>),
    Rep(Box<R>, u32, Option<u32>),
    And(Box<R>, Box<R>),
    Not(Box<R>),
    /// case-insensitive group
    NoCase(Box<R>),
    /// raw bytes literal (may be invalid UTF-8); only for references built by hand
    Bytes(Vec<u8>),
}

// ---------------------------------------------------------------------------------------
// UTF-8 range splitting

const MAX_SCALAR: u32 = 0x10FFFF;

fn enc(c: u32) -> Vec<u8> {
    if c < 0x80 {
        vec![c as u8]
    } else if c < 0x800 {
        vec![0xC0 | (c >> 6) as u8, 0x80 | (c & 0x3F) as u8]
    } else if c < 0x10000 {
        vec![0xE0 | (c >> 12) as u8, 0x80 | ((c >> 6) & 0x3F) as u8, 0x80 | (c & 0x3F) as u8]
    } else {
        vec![0xF0 | (c >> 18) as u8, 0x80 | ((c >> 12) & 0x3F) as u8, 0x80 | ((c >> 6) & 0x3F) as u8, 0x80 | (c & 0x3F) as u8]
    }
}

/// sequences of byte ranges matching exactly the scalars in [lo, hi] (surrogates removed)
pub fn utf8_sequences(lo: u32, hi: u32, out: &mut Vec<Vec<(u8, u8)>>) {
    if lo > hi {
        return;
    }
    // remove surrogates
    if lo <= 0xDFFF && hi >= 0xD800 {
        if lo < 0xD800 {
            utf8_sequences(lo, 0xD7FF, out);
        }
        if hi > 0xDFFF {
            utf8_sequences(0xE000, hi, out);
        }
        return;
    }
    // split by encoded length
    for bound in [0x7Fu32, 0x7FF, 0xFFFF] {
        if lo <= bound && hi > bound {
            utf8_sequences(lo, bound, out);
            utf8_sequences(bound + 1, hi, out);
            return;
        }
    }
    let n = enc(lo).len();
    for i in 1..n {
        let m: u32 = (1 << (6 * i)) - 1;
        if (lo & !m) != (hi & !m) {
            if (lo & m) != 0 {
                utf8_sequences(lo, lo | m, out);
                utf8_sequences((lo | m) + 1, hi, out);
                return;
            }
            if (hi & m) != m {
                utf8_sequences(lo, (hi & !m) - 1, out);
                utf8_sequences(hi & !m, hi, out);
                return;
            }
        }
    }
    let a = enc(lo);
    let b = enc(hi);
    out.push(a.iter().zip(b.iter()).map(|(x, y)| (*x, *y)).collect());
}

/// self-test of the splitter against char::encode_utf8 for all scalars (run once per process)
pub fn selftest_utf8() -> Result<(), String> {
    let classes: Vec<Vec<(u32, u32)>> = vec![
        vec![(0, MAX_SCALAR)],
        vec![(0, 0x60), (0x62, MAX_SCALAR)],
        vec![(0, 9), (11, MAX_SCALAR)],
        vec![(0xE9, 0x20AC)],
        vec![(0x7F, 0x800), (0xFFFE, 0x10001)],
        vec![(0x1F600, 0x1F64F)],
    ];
    for cls in classes {
        let mut seqs = vec![];
        for (lo, hi) in cls.iter() {
            utf8_sequences(*lo, *hi, &mut seqs);
        }
        for c in 0..=MAX_SCALAR {
            let Some(ch) = char::from_u32(c) else { continue };
            let mut buf = [0u8; 4];
            let e = ch.encode_utf8(&mut buf).as_bytes().to_vec();
            let inside = cls.iter().any(|(lo, hi)| c >= *lo && c <= *hi);
            let matched = seqs.iter().any(|s| s.len() == e.len() && s.iter().zip(e.iter()).all(|((a, b), x)| x >= a && x <= b));
            if inside != matched {
                return Err(format!("utf8 splitter wrong at U+{:X} for class {:?}", c, cls));
            }
        }
    }
    Ok(())
}

// ---------------------------------------------------------------------------------------
// NFA

#[derive(Default, Clone)]
struct Nfa {
    // per state: byte-range transitions and epsilon transitions
    trans: Vec<Vec<(u8, u8, u32)>>,
    eps: Vec<Vec<u32>>,
}

impl Nfa {
    fn new_state(&mut self) -> u32 {
        self.trans.push(vec![]);
        self.eps.push(vec![]);
        (self.trans.len() - 1) as u32
    }
    fn add_seq(&mut self, from: u32, to: u32, seq: &[(u8, u8)]) {
        let mut cur = from;
        for (i, (a, b)) in seq.iter().enumerate() {
            let nxt = if i + 1 == seq.len() { to } else { self.new_state() };
            self.trans[cur as usize].push((*a, *b, nxt));
            cur = nxt;
        }
        if seq.is_empty() {
            self.eps[from as usize].push(to);
        }
    }
}

fn class_scalar_ranges(ranges: &[(char, char)], negated: bool) -> Vec<(u32, u32)> {
    let mut rs: Vec<(u32, u32)> = ranges.iter().map(|(a, b)| (*a as u32, *b as u32)).collect();
    rs.sort();
    if !negated {
        return rs;
    }
    let mut out = vec![];
    let mut next = 0u32;
    for (a, b) in rs {
        if a > next {
            out.push((next, a - 1));
        }
        next = next.max(b + 1);
    }
    if next <= MAX_SCALAR {
        out.push((next, MAX_SCALAR));
    }
    out
}

fn fold_case(c: char) -> Vec<char> {
    let mut v = vec![c];
    let lo: Vec<char> = c.to_lowercase().collect();
    let up: Vec<char> = c.to_uppercase().collect();
    if lo.len() == 1 && !v.contains(&lo[0]) {
        v.push(lo[0]);
    }
    if up.len() == 1 && !v.contains(&up[0]) {
        v.push(up[0]);
    }
    v
}

/// build fragment for r between (from, to)
fn build(n: &mut Nfa, r: &R, from: u32, to: u32, nocase: bool) {
    match r {
        R::Eps => n.eps[from as usize].push(to),
        R::Bytes(bs) => {
            let seq: Vec<(u8, u8)> = bs.iter().map(|b| (*b, *b)).collect();
            n.add_seq(from, to, &seq);
        }
        R::Char(c) => {
            let cs = if nocase { fold_case(*c) } else { vec![*c] };
            for c in cs {
                let e = enc(c as u32);
                let seq: Vec<(u8, u8)> = e.iter().map(|b| (*b, *b)).collect();
                n.add_seq(from, to, &seq);
            }
        }
        R::Class(ranges, neg) => {
            let mut rs = ranges.clone();
            if nocase {
                // only single-char ranges and ascii letter ranges are generated under (?i)
                let mut extra = vec![];
                for (a, b) in ranges.iter() {
                    for c in (*a as u32)..=(*b as u32) {
                        if let Some(ch) = char::from_u32(c) {
                            for f in fold_case(ch) {
                                extra.push((f, f));
                            }
                        }
                        if c - (*a as u32) > 300 {
                            break;
                        }
                    }
                }
                rs.extend(extra);
            }
            let mut seqs = vec![];
            for (lo, hi) in class_scalar_ranges(&rs, *neg) {
                utf8_sequences(lo, hi, &mut seqs);
            }
            for s in seqs {
                n.add_seq(from, to, &s);
            }
        }
        R::Dot => {
            let mut seqs = vec![];
            utf8_sequences(0, 9, &mut seqs);
            utf8_sequences(11, MAX_SCALAR, &mut seqs);
            for s in seqs {
                n.add_seq(from, to, &s);
            }
        }
        R::Cat(a, b) => {
            let mid = n.new_state();
            build(n, a, from, mid, nocase);
            build(n, b, mid, to, nocase);
        }
        R::Alt(a, b) => {
            build(n, a, from, to, nocase);
            build(n, b, from, to, nocase);
        }
        R::Star(a) => {
            let s = n.new_state();
            n.eps[from as usize].push(s);
            n.eps[s as usize].push(to);
            let e = n.new_state();
            build(n, a, s, e, nocase);
            n.eps[e as usize].push(s);
        }
        R::Plus(a) => {
            let s = n.new_state();
            let e = n.new_state();
            n.eps[from as usize].push(s);
            build(n, a, s, e, nocase);
            n.eps[e as usize].push(s);
            n.eps[e as usize].push(to);
        }
        R::Opt(a) => {
            n.eps[from as usize].push(to);
            build(n, a, from, to, nocase);
        }
        R::Rep(a, m, mx) => {
            let mut cur = from;
            for _ in 0..*m {
                let nx = n.new_state();
                build(n, a, cur, nx, nocase);
                cur = nx;
            }
            match mx {
                None => {
                    build(n, &R::Star(a.clone()), cur, to, nocase);
                }
                Some(mx) => {
                    n.eps[cur as usize].push(to);
                    for _ in *m..*mx {
                        let nx = n.new_state();
                        build(n, a, cur, nx, nocase);
                        n.eps[nx as usize].push(to);
                        cur = nx;
                    }
                }
            }
        }
        R::NoCase(a) => build(n, a, from, to, true),
        R::And(a, b) => {
            let da = compile_inner(a, nocase);
            let db = compile_inner(b, nocase);
            let d = da.product(&db, |x, y| x && y);
            embed(n, &d, from, to);
        }
        R::Not(a) => {
            let d = compile_inner(a, nocase).complement();
            embed(n, &d, from, to);
        }
    }
}

fn embed(n: &mut Nfa, d: &Dfa, from: u32, to: u32) {
    let base: Vec<u32> = (0..d.trans.len()).map(|_| n.new_state()).collect();
    n.eps[from as usize].push(base[d.start as usize]);
    for (q, row) in d.trans.iter().enumerate() {
        let mut b = 0usize;
        while b < 256 {
            let t = row[b];
            let mut e = b;
            while e + 1 < 256 && row[e + 1] == t {
                e += 1;
            }
            if t != DEAD {
                n.trans[base[q] as usize].push((b as u8, e as u8, base[t as usize]));
            }
            b = e + 1;
        }
        if d.finals[q] {
            n.eps[base[q] as usize].push(to);
        }
    }
}

pub const DEAD: u32 = u32::MAX;

#[derive(Clone)]
pub struct Dfa {
    pub trans: Vec<[u32; 256]>,
    pub finals: Vec<bool>,
    pub live: Vec<bool>,
    pub start: u32,
}

impl Dfa {
    pub fn step(&self, q: u32, b: u8) -> u32 {
        if q == DEAD {
            DEAD
        } else {
            self.trans[q as usize][b as usize]
        }
    }
    pub fn run(&self, mut q: u32, bytes: &[u8]) -> u32 {
        for b in bytes {
            q = self.step(q, *b);
            if q == DEAD {
                return DEAD;
            }
        }
        q
    }
    pub fn is_final(&self, q: u32) -> bool {
        q != DEAD && self.finals[q as usize]
    }
    /// some matching string extends the prefix leading here
    pub fn is_live(&self, q: u32) -> bool {
        q != DEAD && self.live[q as usize]
    }
    pub fn matches(&self, bytes: &[u8]) -> bool {
        self.is_final(self.run(self.start, bytes))
    }
    pub fn viable_prefix(&self, bytes: &[u8]) -> bool {
        self.is_live(self.run(self.start, bytes))
    }
    /// the language is empty
    pub fn is_empty(&self) -> bool {
        !self.live[self.start as usize]
    }
    /// the language is finite-or-not is not needed; can the match stop here with no extension?
    pub fn has_live_successor(&self, q: u32) -> bool {
        q != DEAD && (0..256).any(|b| self.is_live(self.trans[q as usize][b]))
    }

    fn compute_live(&mut self) {
        let n = self.trans.len();
        let mut rev: Vec<Vec<u32>> = vec![vec![]; n];
        for q in 0..n {
            let mut seen = BTreeSet::new();
            for b in 0..256 {
                let t = self.trans[q][b];
                if t != DEAD && seen.insert(t) {
                    rev[t as usize].push(q as u32);
                }
            }
        }
        let mut live = self.finals.clone();
        let mut work: Vec<u32> = (0..n as u32).filter(|q| live[*q as usize]).collect();
        while let Some(q) = work.pop() {
            for p in rev[q as usize].iter() {
                if !live[*p as usize] {
                    live[*p as usize] = true;
                    work.push(*p);
                }
            }
        }
        self.live = live;
    }

    /// complete the automaton with an explicit sink and flip finals (complement over all byte strings)
    pub fn complement(&self) -> Dfa {
        let n = self.trans.len();
        let sink = n as u32;
        let mut trans = self.trans.clone();
        for row in trans.iter_mut() {
            for t in row.iter_mut() {
                if *t == DEAD {
                    *t = sink;
                }
            }
        }
        trans.push([sink; 256]);
        let mut finals: Vec<bool> = self.finals.iter().map(|f| !f).collect();
        finals.push(true);
        let mut d = Dfa { trans, finals, live: vec![], start: self.start };
        d.compute_live();
        d
    }

    pub fn product(&self, o: &Dfa, f: impl Fn(bool, bool) -> bool) -> Dfa {
        // states: pairs (q1|DEAD, q2|DEAD)
        let mut idx: HashMap<(u32, u32), u32> = HashMap::new();
        let mut trans: Vec<[u32; 256]> = vec![];
        let mut finals = vec![];
        let mut work = vec![(self.start, o.start)];
        idx.insert((self.start, o.start), 0);
        trans.push([DEAD; 256]);
        finals.push(f(self.is_final(self.start), o.is_final(o.start)));
        while let Some((a, b)) = work.pop() {
            let me = idx[&(a, b)];
            for byte in 0..256usize {
                let na = self.step(a, byte as u8);
                let nb = o.step(b, byte as u8);
                if na == DEAD && nb == DEAD && !f(false, false) {
                    continue;
                }
                let k = (na, nb);
                let id = match idx.get(&k) {
                    Some(i) => *i,
                    None => {
                        let i = trans.len() as u32;
                        idx.insert(k, i);
                        trans.push([DEAD; 256]);
                        finals.push(f(self.is_final(na), o.is_final(nb)));
                        work.push(k);
                        i
                    }
                };
                trans[me as usize][byte] = id;
            }
        }
        let mut d = Dfa { trans, finals, live: vec![], start: 0 };
        d.compute_live();
        d
    }

    pub fn num_states(&self) -> usize {
        self.trans.len()
    }

    /// language equality (both complete over bytes through DEAD)
    pub fn equivalent(&self, o: &Dfa) -> Option<Vec<u8>> {
        let mut seen: HashMap<(u32, u32), (u32, u32, u8)> = HashMap::new();
        let mut work = std::collections::VecDeque::new();
        work.push_back((self.start, o.start));
        seen.insert((self.start, o.start), (DEAD, DEAD, 0));
        while let Some((a, b)) = work.pop_front() {
            if self.is_final(a) != o.is_final(b) {
                let mut w = vec![];
                let mut cur = (a, b);
                while let Some((pa, pb, by)) = seen.get(&cur) {
                    if *pa == DEAD && *pb == DEAD && cur == (self.start, o.start) {
                        break;
                    }
                    w.push(*by);
                    cur = (*pa, *pb);
                }
                w.reverse();
                return Some(w);
            }
            for byte in 0..256usize {
                let na = self.step(a, byte as u8);
                let nb = o.step(b, byte as u8);
                if na == DEAD && nb == DEAD {
                    continue;
                }
                if !seen.contains_key(&(na, nb)) {
                    seen.insert((na, nb), (a, b, byte as u8));
                    work.push_back((na, nb));
                }
            }
        }
        None
    }
}

fn eps_closure(n: &Nfa, set: &mut BTreeSet<u32>) {
    let mut work: Vec<u32> = set.iter().copied().collect();
    while let Some(s) = work.pop() {
        for t in n.eps[s as usize].iter() {
            if set.insert(*t) {
                work.push(*t);
            }
        }
    }
}

fn compile_inner(r: &R, nocase: bool) -> Dfa {
    let mut n = Nfa::default();
    let s = n.new_state();
    let f = n.new_state();
    build(&mut n, r, s, f, nocase);
    // subset construction
    let mut start = BTreeSet::new();
    start.insert(s);
    eps_closure(&n, &mut start);
    let mut idx: BTreeMap<BTreeSet<u32>, u32> = BTreeMap::new();
    let mut sets = vec![start.clone()];
    idx.insert(start, 0);
    let mut trans: Vec<[u32; 256]> = vec![[DEAD; 256]];
    let mut i = 0;
    while i < sets.len() {
        let cur = sets[i].clone();
        // collect boundaries to avoid 256 x |set| work: simple per-byte loop is fine for small NFAs
        for byte in 0..256usize {
            let mut nxt = BTreeSet::new();
            for st in cur.iter() {
                for (a, b, t) in n.trans[*st as usize].iter() {
                    if (*a as usize) <= byte && byte <= (*b as usize) {
                        nxt.insert(*t);
                    }
                }
            }
            if nxt.is_empty() {
                continue;
            }
            eps_closure(&n, &mut nxt);
            let id = match idx.get(&nxt) {
                Some(x) => *x,
                None => {
                    let x = sets.len() as u32;
                    idx.insert(nxt.clone(), x);
                    sets.push(nxt);
                    trans.push([DEAD; 256]);
                    x
                }
            };
            trans[i][byte] = id;
        }
        i += 1;
    }
    let finals: Vec<bool> = sets.iter().map(|st| st.contains(&f)).collect();
    let mut d = Dfa { trans, finals, live: vec![], start: 0 };
    d.compute_live();
    d
}

pub fn compile(r: &R) -> Dfa {
    compile_inner(r, false)
}

// ---------------------------------------------------------------------------------------
// printers

fn esc_char(c: char, in_class: bool) -> String {
    match c {
        '\n' => "\\n".to_string(),
        '\t' => "\\t".to_string(),
        '\r' => "\\r".to_string(),
        '\\' | '.' | '+' | '*' | '?' | '(' | ')' | '|' | '[' | ']' | '{' | '}' | '^' | '$' | '/' | '-' | '"' | '&' | '~' | '#' => format!("\\{}", c),
        c if (c as u32) < 0x20 || c as u32 == 0x7F => format!("\\x{:02X}", c as u32),
        c if in_class => c.to_string(),
        c => c.to_string(),
    }
}

impl R {
    pub fn size(&self) -> usize {
        match self {
            R::Eps | R::Char(_) | R::Class(..) | R::Dot | R::Bytes(_) => 1,
            R::Cat(a, b) | R::Alt(a, b) | R::And(a, b) => 1 + a.size() + b.size(),
            R::Star(a) | R::Plus(a) | R::Opt(a) | R::Rep(a, _, _) | R::Not(a) | R::NoCase(a) => 1 + a.size(),
        }
    }

    pub fn has_bool_ops(&self) -> bool {
        match self {
            R::And(..) | R::Not(_) => true,
            R::Eps | R::Char(_) | R::Class(..) | R::Dot | R::Bytes(_) => false,
            R::Cat(a, b) | R::Alt(a, b) => a.has_bool_ops() || b.has_bool_ops(),
            R::Star(a) | R::Plus(a) | R::Opt(a) | R::Rep(a, _, _) | R::NoCase(a) => a.has_bool_ops(),
        }
    }

    fn is_postfix(&self) -> bool {
        matches!(self, R::Star(_) | R::Plus(_) | R::Opt(_) | R::Rep(..))
    }

    fn rep_operand(&self) -> String {
        if self.is_postfix() {
            format!("(?:{})", self.regex_text(0))
        } else {
            self.regex_text(2)
        }
    }

    fn lark_operand(&self, structural: bool) -> Option<String> {
        let atom = matches!(self, R::Char(_) | R::Class(..) | R::Dot);
        let plain = !self.has_bool_ops() && !structural;
        if atom || plain {
            if structural { self.lark_structural(3) } else { Some(self.lark_terminal(3)) }
        } else {
            let inner = if structural { self.lark_structural(0)? } else { self.lark_terminal(0) };
            Some(format!("({})", inner))
        }
    }

    /// regex-crate syntax; prec 0 = alternation, 1 = concatenation, 2 = repetition operand
    pub fn regex_text(&self, prec: u8) -> String {
        match self {
            R::Eps => "(?:)".to_string(),
            R::Bytes(_) => panic!("raw bytes have no regex text"),
            R::Char(c) => esc_char(*c, false),
            R::Dot => ".".to_string(),
            R::Class(rs, neg) => {
                let mut s = String::from("[");
                if *neg {
                    s.push('^');
                }
                for (a, b) in rs {
                    if a == b {
                        s.push_str(&esc_char(*a, true));
                    } else {
                        s.push_str(&format!("{}-{}", esc_char(*a, true), esc_char(*b, true)));
                    }
                }
                s.push(']');
                s
            }
            R::Cat(a, b) => {
                let s = format!("{}{}", a.regex_text(1), b.regex_text(1));
                if prec > 1 { format!("(?:{s})") } else { s }
            }
            R::Alt(a, b) => {
                let s = format!("{}|{}", a.regex_text(0), b.regex_text(0));
                if prec > 0 { format!("(?:{s})") } else { s }
            }
            R::Star(a) => format!("{}*", a.rep_operand()),
            R::Plus(a) => format!("{}+", a.rep_operand()),
            R::Opt(a) => format!("{}?", a.rep_operand()),
            R::Rep(a, m, None) => format!("{}{{{},}}", a.rep_operand(), m),
            R::Rep(a, m, Some(n)) => format!("{}{{{},{}}}", a.rep_operand(), m, n),
            R::NoCase(a) => format!("(?i:{})", a.regex_text(0)),
            R::And(..) | R::Not(_) => panic!("no regex text for & / ~"),
        }
    }

    /// Lark terminal expression; plain sub-expressions are printed as /regex/ atoms
    pub fn lark_terminal(&self, prec: u8) -> String {
        match self {
            R::And(a, b) => {
                let s = format!("{} & {}", a.lark_terminal(1), b.lark_terminal(1));
                if prec > 0 { format!("({s})") } else { s }
            }
            R::Not(a) => format!("~{}", a.lark_operand(false).unwrap()),
            R::Alt(a, b) if self.has_bool_ops() => {
                let s = format!("{} | {}", a.lark_terminal(0), b.lark_terminal(0));
                if prec > 0 { format!("({s})") } else { s }
            }
            R::Cat(a, b) if self.has_bool_ops() => {
                let s = format!("{} {}", a.lark_terminal(2), b.lark_terminal(2));
                if prec > 2 { format!("({s})") } else { s }
            }
            R::Star(a) if self.has_bool_ops() => format!("({})*", a.lark_terminal(0)),
            R::Plus(a) if self.has_bool_ops() => format!("({})+", a.lark_terminal(0)),
            R::Opt(a) if self.has_bool_ops() => format!("({})?", a.lark_terminal(0)),
            R::Rep(a, m, Some(n)) if self.has_bool_ops() => format!("({}){{{},{}}}", a.lark_terminal(0), m, n),
            R::Rep(a, m, None) if self.has_bool_ops() => format!("({}){{{},}}", a.lark_terminal(0), m),
            _ => format!("/{}/", self.regex_text(0)),
        }
    }

    /// Lark terminal built *structurally* (literals, classes, Lark operators) - exercises the
    /// Lark compiler's own regex construction instead of the regex parser.
    pub fn lark_structural(&self, prec: u8) -> Option<String> {
        Some(match self {
            R::Char(c) => {
                let mut s = String::from("\"");
                match c {
                    '"' => s.push_str("\\\""),
                    '\\' => s.push_str("\\\\"),
                    '\n' => s.push_str("\\n"),
                    c => s.push(*c),
                }
                s.push('"');
                s
            }
            R::Class(..) | R::Dot => format!("/{}/", self.regex_text(0)),
            R::Eps | R::Bytes(_) | R::NoCase(_) => return None,
            R::Cat(a, b) => {
                let s = format!("{} {}", a.lark_structural(2)?, b.lark_structural(2)?);
                if prec > 2 { format!("({s})") } else { s }
            }
            R::Alt(a, b) => {
                let s = format!("{} | {}", a.lark_structural(0)?, b.lark_structural(0)?);
                if prec > 0 { format!("({s})") } else { s }
            }
            R::And(a, b) => {
                let s = format!("{} & {}", a.lark_structural(1)?, b.lark_structural(1)?);
                if prec > 0 { format!("({s})") } else { s }
            }
            R::Not(a) => format!("~{}", a.lark_operand(true)?),
            R::Star(a) => format!("{}*", a.lark_operand(true)?),
            R::Plus(a) => format!("{}+", a.lark_operand(true)?),
            R::Opt(a) => format!("{}?", a.lark_operand(true)?),
            R::Rep(a, m, Some(n)) => format!("{}{{{},{}}}", a.lark_operand(true)?, m, n),
            R::Rep(a, m, None) => format!("{}{{{},}}", a.lark_operand(true)?, m),
        })
    }
}

// convenience constructors
pub fn ch(c: char) -> R {
    R::Char(c)
}
pub fn cat(a: R, b: R) -> R {
    R::Cat(Box::new(a), Box::new(b))
}
pub fn alt(a: R, b: R) -> R {
    R::Alt(Box::new(a), Box::new(b))
}
pub fn lit(s: &str) -> R {
    let mut it = s.chars();
    let Some(first) = it.next() else { return R::Eps };
    let mut r = R::Char(first);
    for c in it {
        r = cat(r, R::Char(c));
    }
    r
}
pub fn lit_bytes(b: &[u8]) -> R {
    if b.is_empty() {
        R::Eps
    } else {
        R::Bytes(b.to_vec())
    }
}
