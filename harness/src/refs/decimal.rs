//! Exact decimals taken from literal text: value = mant * 10^(-scale), mant: i128.
use std::cmp::Ordering;

#[derive(Clone, Copy, Debug)]
pub struct Dec {
    pub mant: i128,
    pub scale: u32,
}

fn pow10(n: u32) -> Option<i128> {
    10i128.checked_pow(n)
}

impl Dec {
    pub fn from_int(i: i128) -> Dec {
        Dec { mant: i, scale: 0 }
    }

    /// parse a JSON number literal (optional exponent). None if not a JSON number or too large.
    pub fn parse(s: &str) -> Option<Dec> {
        let b = s.as_bytes();
        let mut i = 0;
        let neg = if b.first() == Some(&b'-') {
            i += 1;
            true
        } else {
            false
        };
        let int_start = i;
        while i < b.len() && b[i].is_ascii_digit() {
            i += 1;
        }
        if i == int_start {
            return None;
        }
        if b[int_start] == b'0' && i - int_start > 1 {
            return None; // leading zero
        }
        let mut digits: Vec<u8> = b[int_start..i].to_vec();
        let mut scale: i64 = 0;
        if i < b.len() && b[i] == b'.' {
            i += 1;
            let fs = i;
            while i < b.len() && b[i].is_ascii_digit() {
                i += 1;
            }
            if i == fs {
                return None;
            }
            digits.extend_from_slice(&b[fs..i]);
            scale = (i - fs) as i64;
        }
        if i < b.len() && (b[i] == b'e' || b[i] == b'E') {
            i += 1;
            let mut eneg = false;
            if i < b.len() && (b[i] == b'+' || b[i] == b'-') {
                eneg = b[i] == b'-';
                i += 1;
            }
            let es = i;
            while i < b.len() && b[i].is_ascii_digit() {
                i += 1;
            }
            if i == es {
                return None;
            }
            let e: i64 = std::str::from_utf8(&b[es..i]).ok()?.parse().ok()?;
            scale -= if eneg { -e } else { e };
        }
        if i != b.len() {
            return None;
        }
        let mut mant: i128 = 0;
        for d in digits {
            mant = mant.checked_mul(10)?.checked_add((d - b'0') as i128)?;
        }
        if scale < 0 {
            mant = mant.checked_mul(pow10((-scale) as u32)?)?;
            scale = 0;
        }
        if scale > 30 {
            return None;
        }
        if neg {
            mant = -mant;
        }
        Some(Dec { mant, scale: scale as u32 })
    }

    pub fn from_json_number(n: &serde_json::Number) -> Option<Dec> {
        Dec::parse(&n.to_string())
    }

    fn align(a: &Dec, b: &Dec) -> Option<(i128, i128)> {
        if a.scale >= b.scale {
            Some((a.mant, b.mant.checked_mul(pow10(a.scale - b.scale)?)?))
        } else {
            Some((a.mant.checked_mul(pow10(b.scale - a.scale)?)?, b.mant))
        }
    }

    pub fn cmp(&self, o: &Dec) -> Ordering {
        match Dec::align(self, o) {
            Some((x, y)) => x.cmp(&y),
            None => {
                // magnitude overflow: compare by sign then by f64 approximation
                self.to_f64().partial_cmp(&o.to_f64()).unwrap_or(Ordering::Equal)
            }
        }
    }

    pub fn to_f64(&self) -> f64 {
        self.mant as f64 / 10f64.powi(self.scale as i32)
    }

    pub fn is_integer(&self) -> bool {
        match pow10(self.scale) {
            Some(p) => self.mant % p == 0,
            None => false,
        }
    }

    pub fn is_zero(&self) -> bool {
        self.mant == 0
    }

    /// self is an integer multiple of m (m > 0)
    pub fn is_multiple_of(&self, m: &Dec) -> Option<bool> {
        if m.mant == 0 {
            return None;
        }
        let (a, b) = Dec::align(self, m)?;
        Some(a % b == 0)
    }

    pub fn eq_val(&self, o: &Dec) -> bool {
        self.cmp(o) == Ordering::Equal
    }
}
