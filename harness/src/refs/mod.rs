pub mod regex_dfa;
pub mod cfg_earley;
pub mod decimal;
pub mod json_validate;
