pub mod regex_dfa;
pub mod cfg_earley;
