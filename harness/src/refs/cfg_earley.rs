//! Reference model for context-free (and parametric) grammars: a textbook byte-level Earley
//! recogniser over the harness's own grammar representation. Sets are iterated to a fixpoint,
//! so nullable symbols need no special treatment. With a grammar whose symbols are all
//! productive, a non-empty item set after a byte <=> the bytes so far are a viable prefix.
use crate::gen::{Gram, G};
use std::collections::{BTreeMap, BTreeSet};

#[derive(Clone, Debug, PartialEq, Eq, Hash, PartialOrd, Ord)]
pub enum PExpr {
    SelfRef,
    Const(u64),
    SetBit(u32),
    ClearBit(u32),
    BitAnd(u64),
    BitOr(u64),
    Incr(u32, u32),
    Decr(u32, u32),
}

#[derive(Clone, Debug, PartialEq, Eq, Hash, PartialOrd, Ord)]
pub enum Cmp {
    Eq,
    Ne,
    Lt,
    Le,
    Gt,
    Ge,
}

#[derive(Clone, Debug, PartialEq, Eq, Hash, PartialOrd, Ord)]
pub enum Cond {
    True,
    BitClear(u32),
    BitSet(u32),
    IsOnes(u32, u32),
    IsZeros(u32, u32),
    Cmp(Cmp, u32, u32, u64),
    BitCount(Cmp, u32, u32, u32),
    And(Box<Cond>, Box<Cond>),
    Or(Box<Cond>, Box<Cond>),
    Not(Box<Cond>),
}

fn bits(p: u64, x: u32, y: u32) -> u64 {
    // p[x:y]: bit range from x inclusive to y exclusive
    let w = y - x;
    let v = p >> x;
    if w >= 64 {
        v
    } else {
        v & ((1u64 << w) - 1)
    }
}

fn cmp(op: &Cmp, a: u64, b: u64) -> bool {
    match op {
        Cmp::Eq => a == b,
        Cmp::Ne => a != b,
        Cmp::Lt => a < b,
        Cmp::Le => a <= b,
        Cmp::Gt => a > b,
        Cmp::Ge => a >= b,
    }
}

impl PExpr {
    pub fn eval(&self, p: u64) -> u64 {
        match self {
            PExpr::SelfRef => p,
            PExpr::Const(v) => *v,
            PExpr::SetBit(k) => p | (1u64 << k),
            PExpr::ClearBit(k) => p & !(1u64 << k),
            PExpr::BitAnd(v) => p & v,
            PExpr::BitOr(v) => p | v,
            PExpr::Incr(x, y) => {
                let w = y - x;
                let ones = if w >= 64 { u64::MAX } else { (1u64 << w) - 1 };
                if bits(p, *x, *y) == ones {
                    p
                } else {
                    p.wrapping_add(1u64 << x)
                }
            }
            PExpr::Decr(x, y) => {
                if bits(p, *x, *y) == 0 {
                    p
                } else {
                    p.wrapping_sub(1u64 << x)
                }
            }
        }
    }
    pub fn lark(&self) -> String {
        let rng = |x: &u32, y: &u32| if *x == 0 && *y == 64 { "_".to_string() } else { format!("[{}:{}]", x, y) };
        match self {
            PExpr::SelfRef => "_".into(),
            PExpr::Const(v) => format!("0x{:x}", v),
            PExpr::SetBit(k) => format!("set_bit({k})"),
            PExpr::ClearBit(k) => format!("clear_bit({k})"),
            PExpr::BitAnd(v) => format!("bit_and(0x{:x})", v),
            PExpr::BitOr(v) => format!("bit_or(0x{:x})", v),
            PExpr::Incr(x, y) => format!("incr({})", rng(x, y)),
            PExpr::Decr(x, y) => format!("decr({})", rng(x, y)),
        }
    }
}

impl Cond {
    pub fn eval(&self, p: u64) -> bool {
        match self {
            Cond::True => true,
            Cond::BitClear(k) => bits(p, *k, k + 1) == 0,
            Cond::BitSet(k) => bits(p, *k, k + 1) == 1,
            Cond::IsOnes(x, y) => {
                let w = y - x;
                let ones = if w >= 64 { u64::MAX } else { (1u64 << w) - 1 };
                bits(p, *x, *y) == ones
            }
            Cond::IsZeros(x, y) => bits(p, *x, *y) == 0,
            Cond::Cmp(op, x, y, v) => cmp(op, bits(p, *x, *y), *v),
            Cond::BitCount(op, x, y, k) => cmp(op, bits(p, *x, *y).count_ones() as u64, *k as u64),
            Cond::And(a, b) => a.eval(p) && b.eval(p),
            Cond::Or(a, b) => a.eval(p) || b.eval(p),
            Cond::Not(a) => !a.eval(p),
        }
    }
    pub fn lark(&self) -> String {
        let rng = |x: &u32, y: &u32| if *x == 0 && *y == 64 { "_".to_string() } else { format!("[{}:{}]", x, y) };
        let opn = |op: &Cmp| match op {
            Cmp::Eq => "eq",
            Cmp::Ne => "ne",
            Cmp::Lt => "lt",
            Cmp::Le => "le",
            Cmp::Gt => "gt",
            Cmp::Ge => "ge",
        };
        match self {
            Cond::True => "true".into(),
            Cond::BitClear(k) => format!("bit_clear({k})"),
            Cond::BitSet(k) => format!("bit_set({k})"),
            Cond::IsOnes(x, y) => format!("is_ones({})", rng(x, y)),
            Cond::IsZeros(x, y) => format!("is_zeros({})", rng(x, y)),
            Cond::Cmp(op, x, y, v) => format!("{}({}, {})", opn(op), rng(x, y), v),
            Cond::BitCount(op, x, y, k) => format!("bit_count_{}({}, {})", opn(op), rng(x, y), k),
            Cond::And(a, b) => format!("and({}, {})", a.lark(), b.lark()),
            Cond::Or(a, b) => format!("or({}, {})", a.lark(), b.lark()),
            Cond::Not(a) => format!("not({})", a.lark()),
        }
    }
}

#[derive(Clone, Debug, PartialEq, Eq, Hash, PartialOrd, Ord)]
pub enum Sym {
    /// any byte of the set
    T(Vec<u8>),
    N(usize, PExpr),
    /// a token reference: any token id of the set, consumed as one unit
    Tok(Vec<u32>),
}

#[derive(Clone, Debug)]
pub struct Alt {
    pub cond: Cond,
    pub syms: Vec<Sym>,
}

#[derive(Clone, Debug, Default)]
pub struct Bnf {
    /// nonterminal -> alternatives; nonterminal 0 is the start symbol (param 0)
    pub nts: Vec<Vec<Alt>>,
}

impl Bnf {
    fn fresh(&mut self) -> usize {
        self.nts.push(vec![]);
        self.nts.len() - 1
    }

    fn seq_of(&mut self, e: &G, rule_nt: &[usize]) -> Vec<Sym> {
        let plain = |n: usize| Sym::N(n, PExpr::SelfRef);
        match e {
            G::Lit(b) => b.iter().map(|x| Sym::T(vec![*x])).collect(),
            G::Class(bs) => vec![Sym::T(bs.clone())],
            G::Empty => vec![],
            G::Ref(i) => vec![plain(rule_nt[*i])],
            G::Seq(a, b) => {
                let mut s = self.seq_of(a, rule_nt);
                s.extend(self.seq_of(b, rule_nt));
                s
            }
            G::Alt(a, b) => {
                let x = self.fresh();
                let sa = self.seq_of(a, rule_nt);
                let sb = self.seq_of(b, rule_nt);
                self.nts[x] = vec![Alt { cond: Cond::True, syms: sa }, Alt { cond: Cond::True, syms: sb }];
                vec![plain(x)]
            }
            G::Opt(a) => {
                let x = self.fresh();
                let sa = self.seq_of(a, rule_nt);
                self.nts[x] = vec![Alt { cond: Cond::True, syms: vec![] }, Alt { cond: Cond::True, syms: sa }];
                vec![plain(x)]
            }
            G::Star(a) => {
                let x = self.fresh();
                let mut sa = vec![plain(x)];
                sa.extend(self.seq_of(a, rule_nt));
                self.nts[x] = vec![Alt { cond: Cond::True, syms: vec![] }, Alt { cond: Cond::True, syms: sa }];
                vec![plain(x)]
            }
            G::Plus(a) => {
                let x = self.fresh();
                let base = self.seq_of(a, rule_nt);
                let mut rec = vec![plain(x)];
                rec.extend(base.clone());
                self.nts[x] = vec![Alt { cond: Cond::True, syms: base }, Alt { cond: Cond::True, syms: rec }];
                vec![plain(x)]
            }
            G::Rep(a, m, n) => {
                let base = self.seq_of(a, rule_nt);
                let mut s = vec![];
                for _ in 0..*m {
                    s.extend(base.clone());
                }
                // n - m nested optionals
                let mut tail: Vec<Sym> = vec![];
                for _ in *m..*n {
                    let x = self.fresh();
                    let mut some = base.clone();
                    some.extend(tail.clone());
                    self.nts[x] = vec![Alt { cond: Cond::True, syms: vec![] }, Alt { cond: Cond::True, syms: some }];
                    tail = vec![plain(x)];
                }
                s.extend(tail);
                s
            }
        }
    }

    pub fn from_gram(g: &Gram) -> Bnf {
        let mut b = Bnf::default();
        let rule_nt: Vec<usize> = (0..g.rules.len()).map(|_| b.fresh()).collect();
        for (i, r) in g.rules.iter().enumerate() {
            let s = b.seq_of(r, &rule_nt);
            b.nts[rule_nt[i]] = vec![Alt { cond: Cond::True, syms: s }];
        }
        b
    }
}

#[derive(Clone, Copy, Debug, PartialEq, Eq, Hash, PartialOrd, Ord)]
pub struct Item {
    nt: u32,
    alt: u32,
    dot: u32,
    origin: u32,
    param: u64,
}

#[derive(Clone, Debug)]
pub struct Chart {
    pub sets: Vec<Vec<Item>>,
}

pub struct Earley<'a> {
    pub g: &'a Bnf,
}

impl<'a> Earley<'a> {
    pub fn new(g: &'a Bnf) -> Self {
        Earley { g }
    }

    fn close(&self, chart: &mut Chart) {
        let k = chart.sets.len() - 1;
        let mut set: BTreeSet<Item> = chart.sets[k].iter().copied().collect();
        loop {
            let mut added = vec![];
            for it in set.iter() {
                let alt = &self.g.nts[it.nt as usize][it.alt as usize];
                if (it.dot as usize) < alt.syms.len() {
                    if let Sym::N(n, e) = &alt.syms[it.dot as usize] {
                        let cp = e.eval(it.param);
                        for (ai, a) in self.g.nts[*n].iter().enumerate() {
                            if a.cond.eval(cp) {
                                added.push(Item { nt: *n as u32, alt: ai as u32, dot: 0, origin: k as u32, param: cp });
                            }
                        }
                    }
                } else {
                    // completion
                    let src: Vec<Item> = if it.origin as usize == k { set.iter().copied().collect() } else { chart.sets[it.origin as usize].clone() };
                    for p in src {
                        let palt = &self.g.nts[p.nt as usize][p.alt as usize];
                        if (p.dot as usize) < palt.syms.len() {
                            if let Sym::N(n, e) = &palt.syms[p.dot as usize] {
                                if *n as u32 == it.nt && e.eval(p.param) == it.param {
                                    added.push(Item { dot: p.dot + 1, ..p });
                                }
                            }
                        }
                    }
                }
            }
            let before = set.len();
            set.extend(added);
            if set.len() == before {
                break;
            }
            if set.len() > 200_000 {
                break;
            }
        }
        chart.sets[k] = set.into_iter().collect();
    }

    pub fn start(&self) -> Chart {
        let mut c = Chart { sets: vec![vec![]] };
        for (ai, a) in self.g.nts[0].iter().enumerate() {
            if a.cond.eval(0) {
                c.sets[0].push(Item { nt: 0, alt: ai as u32, dot: 0, origin: 0, param: 0 });
            }
        }
        self.close(&mut c);
        c
    }

    /// scan one byte; returns None when the prefix is not viable
    pub fn step(&self, chart: &Chart, b: u8) -> Option<Chart> {
        let k = chart.sets.len() - 1;
        let mut next = vec![];
        for it in chart.sets[k].iter() {
            let alt = &self.g.nts[it.nt as usize][it.alt as usize];
            if (it.dot as usize) < alt.syms.len() {
                if let Sym::T(bs) = &alt.syms[it.dot as usize] {
                    if bs.contains(&b) {
                        next.push(Item { dot: it.dot + 1, ..*it });
                    }
                }
            }
        }
        if next.is_empty() {
            return None;
        }
        let mut c = chart.clone();
        c.sets.push(next);
        self.close(&mut c);
        Some(c)
    }

    /// scan one token reference; None when no item expects a token set containing `t`
    pub fn step_tok(&self, chart: &Chart, t: u32) -> Option<Chart> {
        let k = chart.sets.len() - 1;
        let mut next = vec![];
        for it in chart.sets[k].iter() {
            let alt = &self.g.nts[it.nt as usize][it.alt as usize];
            if (it.dot as usize) < alt.syms.len() {
                if let Sym::Tok(ts) = &alt.syms[it.dot as usize] {
                    if ts.contains(&t) {
                        next.push(Item { dot: it.dot + 1, ..*it });
                    }
                }
            }
        }
        if next.is_empty() {
            return None;
        }
        let mut c = chart.clone();
        c.sets.push(next);
        self.close(&mut c);
        Some(c)
    }

    /// token ids expected by some item at a token-reference position
    pub fn expected_toks(&self, chart: &Chart) -> std::collections::BTreeSet<u32> {
        let k = chart.sets.len() - 1;
        let mut out = std::collections::BTreeSet::new();
        for it in chart.sets[k].iter() {
            let alt = &self.g.nts[it.nt as usize][it.alt as usize];
            if (it.dot as usize) < alt.syms.len() {
                if let Sym::Tok(ts) = &alt.syms[it.dot as usize] {
                    out.extend(ts.iter().copied());
                }
            }
        }
        out
    }

    pub fn run(&self, chart: &Chart, bytes: &[u8]) -> Option<Chart> {
        let mut c = chart.clone();
        for b in bytes {
            c = self.step(&c, *b)?;
        }
        Some(c)
    }

    pub fn accepting(&self, chart: &Chart) -> bool {
        let k = chart.sets.len() - 1;
        chart.sets[k].iter().any(|it| {
            it.nt == 0 && it.origin == 0 && it.param == 0 && it.dot as usize == self.g.nts[0][it.alt as usize].syms.len()
        })
    }

    /// some byte can follow
    pub fn can_extend(&self, chart: &Chart) -> bool {
        let k = chart.sets.len() - 1;
        chart.sets[k].iter().any(|it| {
            let alt = &self.g.nts[it.nt as usize][it.alt as usize];
            (it.dot as usize) < alt.syms.len() && matches!(alt.syms[it.dot as usize], Sym::T(_) | Sym::Tok(_))
        })
    }

    /// canonical key of the part of the chart the future can depend on
    pub fn key(&self, chart: &Chart) -> u64 {
        let k = chart.sets.len() - 1;
        let mut reach: BTreeSet<usize> = BTreeSet::new();
        let mut work = vec![k];
        while let Some(r) = work.pop() {
            if !reach.insert(r) {
                continue;
            }
            for it in chart.sets[r].iter() {
                if !reach.contains(&(it.origin as usize)) {
                    work.push(it.origin as usize);
                }
            }
        }
        let renum: BTreeMap<usize, u64> = reach.iter().enumerate().map(|(i, r)| (*r, i as u64)).collect();
        let mut data: Vec<u64> = vec![];
        for r in reach.iter() {
            data.push(u64::MAX);
            for it in chart.sets[*r].iter() {
                data.push(((it.nt as u64) << 40) | ((it.alt as u64) << 20) | it.dot as u64);
                data.push(renum[&(it.origin as usize)]);
                data.push(it.param);
            }
        }
        crate::common::hash_u64s(&data)
    }
}

// ---------------------------------------------------------------------------------------
// hand-written parametric grammars (docs/parametric.md and variations), as BNF + Lark text

pub struct PGram {
    pub name: &'static str,
    pub bnf: Bnf,
    pub lark: String,
}

fn t(s: &str) -> Vec<Sym> {
    s.bytes().map(|b| Sym::T(vec![b])).collect()
}

fn print_pgram(names: &[&str], bnf: &Bnf, start_param: u64) -> String {
    // nonterminal 0 is `start: <names[1]>::start_param` by convention
    let mut s = format!("start: {}::0x{:x}\n", names[1], start_param);
    for (i, alts) in bnf.nts.iter().enumerate().skip(1) {
        for (ai, a) in alts.iter().enumerate() {
            let mut rhs = String::new();
            let mut lit = String::new();
            let flush = |lit: &mut String, rhs: &mut String| {
                if !lit.is_empty() {
                    rhs.push_str(&format!("\"{}\" ", lit));
                    lit.clear();
                }
            };
            for sym in a.syms.iter() {
                match sym {
                    Sym::T(bs) => lit.push(bs[0] as char),
                    Sym::Tok(_) => {}
                    Sym::N(n, e) => {
                        flush(&mut lit, &mut rhs);
                        rhs.push_str(&format!("{}::{} ", names[*n], e.lark()));
                    }
                }
            }
            flush(&mut lit, &mut rhs);
            if rhs.is_empty() {
                rhs = "\"\" ".to_string();
            }
            let cond = if a.cond == Cond::True { String::new() } else { format!("%if {}", a.cond.lark()) };
            if ai == 0 {
                s.push_str(&format!("{}::_ : {}{}\n", names[i], rhs, cond));
            } else {
                s.push_str(&format!("   | {}{}\n", rhs, cond));
            }
        }
    }
    s
}

/// Generated parametric family: one callee `x` reached with two *different* parameter values from the same
/// Earley set (side by side in two alternatives, in sequence, or behind an ambiguous prefix), the callee's
/// alternatives guarded by conditions on the parameter (and one level deeper through `y::_`), plus
/// left-recursive counting — the shapes where an engine that merges items of one rule across parameter
/// values over- or under-accepts.
pub fn generated_parametric() -> Vec<PGram> {
    // printer: nts[0] is the plain rule `start`, the others are parametric rules `name::_`
    fn print(names: &[&str], bnf: &Bnf) -> String {
        let mut s = String::new();
        for (i, alts) in bnf.nts.iter().enumerate() {
            for (ai, a) in alts.iter().enumerate() {
                let mut rhs = String::new();
                for sym in a.syms.iter() {
                    match sym {
                        Sym::T(bs) => rhs.push_str(&format!("\"{}\" ", bs[0] as char)),
                        Sym::Tok(_) => {}
                        Sym::N(n, e) => rhs.push_str(&format!("{}::{} ", names[*n], e.lark())),
                    }
                }
                if rhs.is_empty() {
                    rhs = "\"\" ".to_string();
                }
                let cond = if a.cond == Cond::True { String::new() } else { format!("%if {}", a.cond.lark()) };
                if ai == 0 {
                    s.push_str(&format!("{}{} : {}{}\n", names[i], if i == 0 { "" } else { "::_" }, rhs, cond));
                } else {
                    s.push_str(&format!("   | {}{}\n", rhs, cond));
                }
            }
        }
        s
    }
    let mut out = vec![];
    let c = |v: u64| PExpr::Const(v);
    let x = |e: PExpr| Sym::N(1, e);
    let tt = |b: u8| Sym::T(vec![b]);
    // callee alternatives menu (the last one goes one level deeper through y::_)
    let menu: Vec<Alt> = vec![
        Alt { cond: Cond::BitSet(0), syms: vec![tt(b'b')] },
        Alt { cond: Cond::BitSet(1), syms: vec![tt(b'c')] },
        Alt { cond: Cond::Cmp(Cmp::Eq, 0, 64, 3), syms: vec![tt(b'd')] },
        Alt { cond: Cond::BitSet(1), syms: vec![] },
        Alt { cond: Cond::True, syms: vec![tt(b'a'), Sym::N(2, PExpr::SelfRef)] },
    ];
    let y_alts = vec![Alt { cond: Cond::BitSet(0), syms: vec![tt(b'e')] }, Alt { cond: Cond::BitClear(0), syms: vec![tt(b'f')] }];
    let mut subsets: Vec<Vec<usize>> = vec![];
    for i in 0..menu.len() {
        for j in (i + 1)..menu.len() {
            subsets.push(vec![i, j]);
            for k in (j + 1)..menu.len() {
                subsets.push(vec![i, j, k]);
            }
        }
    }
    let mut n = 0;
    for (c1, c2) in [(1u64, 2u64), (1, 3), (2, 3)] {
        for caller in 0..3 {
            let top: Vec<Alt> = match caller {
                0 => vec![Alt { cond: Cond::True, syms: vec![x(c(c1)), tt(b'p')] }, Alt { cond: Cond::True, syms: vec![x(c(c2)), tt(b'q')] }],
                1 => vec![Alt { cond: Cond::True, syms: vec![x(c(c1)), tt(b'p'), x(c(c2))] }],
                _ => vec![Alt { cond: Cond::True, syms: vec![tt(b'p'), x(c(c1))] }, Alt { cond: Cond::True, syms: vec![tt(b'p'), x(c(c2)), tt(b'q')] }],
            };
            for sub in subsets.iter() {
                let alts: Vec<Alt> = sub.iter().map(|i| menu[*i].clone()).collect();
                let uses_y = sub.contains(&4);
                let mut nts = vec![top.clone(), alts];
                if uses_y {
                    nts.push(y_alts.clone());
                }
                let bnf = Bnf { nts };
                let name: &'static str = Box::leak(format!("genp-{n}").into_boxed_str());
                n += 1;
                let lark = print(&["start", "x", "y"], &bnf);
                out.push(PGram { name, lark, bnf });
            }
        }
    }
    // guarded empty alternative: sel::p -> "" %if COND | "a" sel::set_bit(0) %if bit_clear(0) | "b" sel::set_bit(1)
    // %if bit_clear(1), for every boolean shape of COND over the two bits (negated conjunctions / disjunctions,
    // double negation, mixed): whether sel::p can derive the empty string is what the engine precomputes
    // per parameter value; `start: sel::0` and `start: sel::0 "c"` (the nullable symbol must be stepped over)
    {
        let atoms = [Cond::BitSet(0), Cond::BitClear(0), Cond::BitSet(1), Cond::BitClear(1)];
        let bx = |c: &Cond| Box::new(c.clone());
        let mut conds: Vec<Cond> = vec![];
        for a in atoms.iter() {
            conds.push(Cond::Not(bx(&Cond::Not(bx(a)))));
            for b in atoms.iter() {
                if a == b {
                    continue;
                }
                conds.push(Cond::Not(bx(&Cond::And(bx(a), bx(b)))));
                conds.push(Cond::Not(bx(&Cond::Or(bx(a), bx(b)))));
                conds.push(Cond::And(bx(a), bx(&Cond::Not(bx(b)))));
                conds.push(Cond::Or(bx(&Cond::Not(bx(a))), bx(b)));
                conds.push(Cond::Not(bx(&Cond::And(bx(&Cond::Not(bx(a))), bx(b)))));
            }
        }
        let mut k = 0;
        for cond in conds {
            for tail in [false, true] {
                let sel = vec![
                    Alt { cond: cond.clone(), syms: vec![] },
                    Alt { cond: Cond::BitClear(0), syms: vec![tt(b'a'), Sym::N(1, PExpr::SetBit(0))] },
                    Alt { cond: Cond::BitClear(1), syms: vec![tt(b'b'), Sym::N(1, PExpr::SetBit(1))] },
                ];
                let mut top = vec![Sym::N(1, c(0))];
                if tail {
                    top.push(tt(b'c'));
                }
                let bnf = Bnf { nts: vec![vec![Alt { cond: Cond::True, syms: top }], sel] };
                let name: &'static str = Box::leak(format!("genp-sel-{k}").into_boxed_str());
                k += 1;
                out.push(PGram { name, lark: print(&["start", "sel"], &bnf), bnf });
            }
        }
    }
    // a parameter expression on the way: start: "x" a::K ; a::_ : b::EXPR [e::_] ; b::_ : W %if eq(_,1) | "z" %if ne(_,1)
    // (e::_ : "" | "q" %if eq(_,77)). With W = "p" the rule a is a pure pass-through whose only content is the
    // expression ("genp-thru-*"); with W = "" the empty derivation of a::K depends on the value EXPR computes
    // ("genp-nullthru-*").
    {
        let exprs = [PExpr::SelfRef, PExpr::Incr(0, 64), PExpr::Decr(0, 64), PExpr::SetBit(0), PExpr::ClearBit(0), PExpr::BitOr(1), PExpr::BitAnd(1), PExpr::Const(1)];
        let mut k = 0;
        for e in exprs.iter() {
            for start in [0u64, 1, 2] {
                for (nullable, with_e) in [(false, false), (false, true), (true, true), (true, false)] {
                    let b_first = if nullable { vec![] } else { vec![tt(b'p')] };
                    let b = vec![Alt { cond: Cond::Cmp(Cmp::Eq, 0, 64, 1), syms: b_first }, Alt { cond: Cond::Cmp(Cmp::Ne, 0, 64, 1), syms: vec![tt(b'z')] }];
                    let mut a_syms = vec![Sym::N(2, e.clone())];
                    let mut nts = vec![vec![Alt { cond: Cond::True, syms: vec![tt(b'x'), Sym::N(1, c(start))] }], vec![], b];
                    if with_e {
                        a_syms.push(Sym::N(3, PExpr::SelfRef));
                        nts.push(vec![Alt { cond: Cond::True, syms: vec![] }, Alt { cond: Cond::Cmp(Cmp::Eq, 0, 64, 77), syms: vec![tt(b'q')] }]);
                    }
                    nts[1] = vec![Alt { cond: Cond::True, syms: a_syms }];
                    let bnf = Bnf { nts };
                    let name: &'static str = Box::leak(format!("genp-{}thru-{k}", if nullable { "null" } else { "" }).into_boxed_str());
                    k += 1;
                    out.push(PGram { name, lark: print(&["start", "a", "b", "e"], &bnf), bnf });
                }
            }
        }
    }
    // left-recursive counting: l::p -> l::(p+1) "a" while p < k | "b"
    for k in 1..=3u64 {
        let l = vec![
            Alt { cond: Cond::Cmp(Cmp::Lt, 0, 64, k), syms: vec![Sym::N(1, PExpr::Incr(0, 64)), tt(b'a')] },
            Alt { cond: Cond::True, syms: vec![tt(b'b')] },
        ];
        let bnf = Bnf { nts: vec![vec![Alt { cond: Cond::True, syms: vec![Sym::N(1, c(0)), tt(b'!')] }], l] };
        let name: &'static str = Box::leak(format!("genp-lrec-{k}").into_boxed_str());
        out.push(PGram { name, lark: print(&["start", "l"], &bnf), bnf });
    }
    out
}

pub fn parametric_grammars() -> Vec<PGram> {
    let mut out = vec![];
    let start_alt = |n: usize, p: u64| vec![Alt { cond: Cond::True, syms: vec![Sym::N(n, PExpr::Const(p))] }];
    let rec = |c: u8, e: PExpr| {
        let mut v = vec![Sym::T(vec![c])];
        v.push(Sym::N(1, e));
        v
    };
    // 1. permutation of a, b, c
    {
        let alts = vec![
            Alt { cond: Cond::IsOnes(0, 3), syms: vec![] },
            Alt { cond: Cond::BitClear(0), syms: rec(b'a', PExpr::SetBit(0)) },
            Alt { cond: Cond::BitClear(1), syms: rec(b'b', PExpr::SetBit(1)) },
            Alt { cond: Cond::BitClear(2), syms: rec(b'c', PExpr::SetBit(2)) },
        ];
        let bnf = Bnf { nts: vec![start_alt(1, 0), alts] };
        out.push(PGram { name: "perm3", lark: print_pgram(&["start", "perm"], &bnf, 0), bnf });
    }
    // 2. each element at least once
    {
        let alts = vec![
            Alt { cond: Cond::IsOnes(0, 3), syms: vec![] },
            Alt { cond: Cond::True, syms: rec(b'a', PExpr::SetBit(0)) },
            Alt { cond: Cond::True, syms: rec(b'b', PExpr::SetBit(1)) },
            Alt { cond: Cond::True, syms: rec(b'c', PExpr::SetBit(2)) },
        ];
        let bnf = Bnf { nts: vec![start_alt(1, 0), alts] };
        out.push(PGram { name: "atleast-once", lark: print_pgram(&["start", "perm"], &bnf, 0), bnf });
    }
    // 3. /b*a*/ with len < 4 (two parametric rules)
    {
        let aa = vec![
            Alt { cond: Cond::Cmp(Cmp::Lt, 0, 64, 4), syms: vec![Sym::T(vec![b'b']), Sym::N(1, PExpr::Incr(0, 64))] },
            Alt { cond: Cond::True, syms: vec![Sym::N(2, PExpr::SelfRef)] },
        ];
        let bb = vec![
            Alt { cond: Cond::Cmp(Cmp::Lt, 0, 64, 4), syms: vec![Sym::T(vec![b'a']), Sym::N(2, PExpr::Incr(0, 64))] },
            Alt { cond: Cond::True, syms: vec![] },
        ];
        let bnf = Bnf { nts: vec![start_alt(1, 0), aa, bb] };
        out.push(PGram { name: "bounded-len", lark: print_pgram(&["start", "aa", "bb"], &bnf, 0), bnf });
    }
    // 4. counters in bit ranges: a at most 2, b at most 3 (saturating 2-bit fields)
    {
        let alts = vec![
            Alt { cond: Cond::Cmp(Cmp::Lt, 0, 2, 2), syms: rec(b'a', PExpr::Incr(0, 2)) },
            Alt { cond: Cond::Cmp(Cmp::Lt, 2, 4, 3), syms: rec(b'b', PExpr::Incr(2, 4)) },
            Alt { cond: Cond::True, syms: vec![] },
        ];
        let bnf = Bnf { nts: vec![start_alt(1, 0), alts] };
        out.push(PGram { name: "counters", lark: print_pgram(&["start", "lst"], &bnf, 0), bnf });
    }
    // 5. pick 1..2 of a, b, c, d (bit_count)
    {
        let pick = |c: u8, k: u32| Alt {
            cond: Cond::And(Box::new(Cond::BitClear(k)), Box::new(Cond::BitCount(Cmp::Lt, 0, 64, 2))),
            syms: rec(c, PExpr::SetBit(k)),
        };
        let alts = vec![
            Alt { cond: Cond::BitCount(Cmp::Ge, 0, 64, 1), syms: vec![] },
            pick(b'a', 0),
            pick(b'b', 1),
            pick(b'c', 2),
            pick(b'd', 3),
        ];
        let bnf = Bnf { nts: vec![start_alt(1, 0), alts] };
        out.push(PGram { name: "pick-1-2", lark: print_pgram(&["start", "perm"], &bnf, 0), bnf });
    }
    // 6. saturating incr at the top of a 2-bit field, decr, clear_bit, or/not conditions
    {
        let alts = vec![
            Alt { cond: Cond::Not(Box::new(Cond::IsOnes(0, 2))), syms: rec(b'a', PExpr::Incr(0, 2)) },
            Alt { cond: Cond::Or(Box::new(Cond::IsOnes(0, 2)), Box::new(Cond::Cmp(Cmp::Eq, 0, 2, 1))), syms: rec(b'b', PExpr::Decr(0, 2)) },
            Alt { cond: Cond::BitSet(1), syms: rec(b'c', PExpr::ClearBit(1)) },
            Alt { cond: Cond::IsZeros(0, 2), syms: t("d") },
            Alt { cond: Cond::Cmp(Cmp::Ge, 0, 2, 3), syms: t("e") },
        ];
        let bnf = Bnf { nts: vec![start_alt(1, 0), alts] };
        out.push(PGram { name: "incr-decr", lark: print_pgram(&["start", "r"], &bnf, 0), bnf });
    }
    // 7. saturation: incr on a full 1-bit field leaves the parameter unchanged; bit_and / bit_or
    {
        let alts = vec![
            Alt { cond: Cond::Cmp(Cmp::Le, 0, 64, 5), syms: rec(b'a', PExpr::Incr(0, 1)) },
            Alt { cond: Cond::BitClear(2), syms: rec(b'b', PExpr::BitOr(0x6)) },
            Alt { cond: Cond::Cmp(Cmp::Gt, 0, 64, 5), syms: rec(b'c', PExpr::BitAnd(0x1)) },
            Alt { cond: Cond::Cmp(Cmp::Ne, 0, 64, 0), syms: t("d") },
        ];
        let bnf = Bnf { nts: vec![start_alt(1, 0), alts] };
        out.push(PGram { name: "saturate", lark: print_pgram(&["start", "r"], &bnf, 0), bnf });
    }
    // 8. unguarded saturating incr on fields that do not start at bit 0 (a mid-word field next to an observed
    // neighbour bit, and the top field of the word)
    {
        let alts = vec![
            Alt { cond: Cond::True, syms: rec(b'a', PExpr::Incr(2, 4)) },
            Alt { cond: Cond::True, syms: rec(b'b', PExpr::Incr(62, 64)) },
            Alt { cond: Cond::BitSet(4), syms: t("c") },
            Alt { cond: Cond::IsOnes(2, 4), syms: t("d") },
            Alt { cond: Cond::IsOnes(62, 64), syms: t("e") },
            Alt { cond: Cond::IsZeros(0, 2), syms: t("x") },
        ];
        let bnf = Bnf { nts: vec![start_alt(1, 0), alts] };
        out.push(PGram { name: "saturate-high-fields", lark: print_pgram(&["start", "r"], &bnf, 0), bnf });
    }
    out
}
