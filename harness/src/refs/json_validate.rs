//! Reference: duplicate-preserving JSON parser and a Draft 2020-12 validator for the keyword
//! set llguidance documents as supported. Numbers are compared as exact decimals taken from the
//! literal text. Formats are asserted with predicates written from the RFCs.
use super::decimal::Dec;
use serde_json::Value;

#[derive(Clone, Debug, PartialEq)]
pub enum J {
    Null,
    Bool(bool),
    /// the literal text
    Num(String),
    Str(String),
    Arr(Vec<J>),
    /// entries in document order, duplicates preserved
    Obj(Vec<(String, J)>),
}

// ---------------------------------------------------------------------------------------
// parser (RFC 8259, strict)

struct P<'a> {
    b: &'a [u8],
    i: usize,
}

impl<'a> P<'a> {
    fn ws(&mut self) {
        while self.i < self.b.len() && matches!(self.b[self.i], b' ' | b'\n' | b'\r' | b'\t') {
            self.i += 1;
        }
    }
    fn peek(&self) -> Option<u8> {
        self.b.get(self.i).copied()
    }
    fn eat(&mut self, lit: &[u8]) -> Result<(), String> {
        if self.b[self.i..].starts_with(lit) {
            self.i += lit.len();
            Ok(())
        } else {
            Err(format!("expected {:?} at {}", String::from_utf8_lossy(lit), self.i))
        }
    }
    fn value(&mut self, depth: usize) -> Result<J, String> {
        if depth > 200 {
            return Err("too deep".into());
        }
        self.ws();
        match self.peek() {
            None => Err("unexpected end".into()),
            Some(b'n') => self.eat(b"null").map(|_| J::Null),
            Some(b't') => self.eat(b"true").map(|_| J::Bool(true)),
            Some(b'f') => self.eat(b"false").map(|_| J::Bool(false)),
            Some(b'"') => self.string().map(J::Str),
            Some(b'[') => {
                self.i += 1;
                let mut v = vec![];
                self.ws();
                if self.peek() == Some(b']') {
                    self.i += 1;
                    return Ok(J::Arr(v));
                }
                loop {
                    v.push(self.value(depth + 1)?);
                    self.ws();
                    match self.peek() {
                        Some(b',') => self.i += 1,
                        Some(b']') => {
                            self.i += 1;
                            return Ok(J::Arr(v));
                        }
                        _ => return Err(format!("expected , or ] at {}", self.i)),
                    }
                }
            }
            Some(b'{') => {
                self.i += 1;
                let mut v = vec![];
                self.ws();
                if self.peek() == Some(b'}') {
                    self.i += 1;
                    return Ok(J::Obj(v));
                }
                loop {
                    self.ws();
                    if self.peek() != Some(b'"') {
                        return Err(format!("expected key at {}", self.i));
                    }
                    let k = self.string()?;
                    self.ws();
                    self.eat(b":")?;
                    let val = self.value(depth + 1)?;
                    v.push((k, val));
                    self.ws();
                    match self.peek() {
                        Some(b',') => self.i += 1,
                        Some(b'}') => {
                            self.i += 1;
                            return Ok(J::Obj(v));
                        }
                        _ => return Err(format!("expected , or }} at {}", self.i)),
                    }
                }
            }
            Some(c) if c == b'-' || c.is_ascii_digit() => {
                let s = self.i;
                if self.peek() == Some(b'-') {
                    self.i += 1;
                }
                let ds = self.i;
                while self.i < self.b.len() && self.b[self.i].is_ascii_digit() {
                    self.i += 1;
                }
                if self.i == ds {
                    return Err("digits expected".into());
                }
                if self.b[ds] == b'0' && self.i - ds > 1 {
                    return Err("leading zero".into());
                }
                if self.peek() == Some(b'.') {
                    self.i += 1;
                    let fs = self.i;
                    while self.i < self.b.len() && self.b[self.i].is_ascii_digit() {
                        self.i += 1;
                    }
                    if self.i == fs {
                        return Err("fraction digits expected".into());
                    }
                }
                if matches!(self.peek(), Some(b'e') | Some(b'E')) {
                    self.i += 1;
                    if matches!(self.peek(), Some(b'+') | Some(b'-')) {
                        self.i += 1;
                    }
                    let es = self.i;
                    while self.i < self.b.len() && self.b[self.i].is_ascii_digit() {
                        self.i += 1;
                    }
                    if self.i == es {
                        return Err("exponent digits expected".into());
                    }
                }
                Ok(J::Num(String::from_utf8_lossy(&self.b[s..self.i]).to_string()))
            }
            Some(c) => Err(format!("unexpected byte {:#x} at {}", c, self.i)),
        }
    }

    fn hex4(&mut self) -> Result<u32, String> {
        if self.i + 4 > self.b.len() {
            return Err("short \\u escape".into());
        }
        let s = std::str::from_utf8(&self.b[self.i..self.i + 4]).map_err(|_| "bad \\u")?;
        if !s.bytes().all(|c| c.is_ascii_hexdigit()) {
            return Err("bad \\u escape".into());
        }
        self.i += 4;
        u32::from_str_radix(s, 16).map_err(|_| "bad \\u".to_string())
    }

    fn string(&mut self) -> Result<String, String> {
        self.i += 1; // opening quote
        let mut out: Vec<u8> = vec![];
        loop {
            let Some(c) = self.peek() else { return Err("unterminated string".into()) };
            self.i += 1;
            match c {
                b'"' => break,
                b'\\' => {
                    let Some(e) = self.peek() else { return Err("unterminated escape".into()) };
                    self.i += 1;
                    match e {
                        b'"' => out.push(b'"'),
                        b'\\' => out.push(b'\\'),
                        b'/' => out.push(b'/'),
                        b'b' => out.push(8),
                        b'f' => out.push(12),
                        b'n' => out.push(b'\n'),
                        b'r' => out.push(b'\r'),
                        b't' => out.push(b'\t'),
                        b'u' => {
                            let mut cp = self.hex4()?;
                            if (0xD800..0xDC00).contains(&cp) {
                                // need a low surrogate
                                if self.b[self.i..].starts_with(b"\\u") {
                                    self.i += 2;
                                    let lo = self.hex4()?;
                                    if !(0xDC00..0xE000).contains(&lo) {
                                        return Err("unpaired surrogate".into());
                                    }
                                    cp = 0x10000 + ((cp - 0xD800) << 10) + (lo - 0xDC00);
                                } else {
                                    return Err("unpaired surrogate".into());
                                }
                            } else if (0xDC00..0xE000).contains(&cp) {
                                return Err("unpaired low surrogate".into());
                            }
                            let ch = char::from_u32(cp).ok_or("bad scalar")?;
                            let mut buf = [0u8; 4];
                            out.extend_from_slice(ch.encode_utf8(&mut buf).as_bytes());
                        }
                        _ => return Err(format!("bad escape \\{}", e as char)),
                    }
                }
                c if c < 0x20 => return Err("raw control character in string".into()),
                c => out.push(c),
            }
        }
        String::from_utf8(out).map_err(|_| "invalid utf-8 in string".to_string())
    }
}

pub fn parse_json(bytes: &[u8]) -> Result<J, String> {
    if std::str::from_utf8(bytes).is_err() {
        return Err("invalid utf-8".into());
    }
    let mut p = P { b: bytes, i: 0 };
    let v = p.value(0)?;
    p.ws();
    if p.i != bytes.len() {
        return Err(format!("trailing data at {}", p.i));
    }
    Ok(v)
}

pub fn from_value(v: &Value) -> J {
    match v {
        Value::Null => J::Null,
        Value::Bool(b) => J::Bool(*b),
        Value::Number(n) => J::Num(n.to_string()),
        Value::String(s) => J::Str(s.clone()),
        Value::Array(a) => J::Arr(a.iter().map(from_value).collect()),
        Value::Object(o) => J::Obj(o.iter().map(|(k, v)| (k.clone(), from_value(v))).collect()),
    }
}

/// JSON Schema equality: numbers by value, objects as maps
pub fn j_eq(a: &J, b: &J) -> bool {
    match (a, b) {
        (J::Null, J::Null) => true,
        (J::Bool(x), J::Bool(y)) => x == y,
        (J::Str(x), J::Str(y)) => x == y,
        (J::Num(x), J::Num(y)) => match (Dec::parse(x), Dec::parse(y)) {
            (Some(p), Some(q)) => p.eq_val(&q),
            _ => x == y,
        },
        (J::Arr(x), J::Arr(y)) => x.len() == y.len() && x.iter().zip(y.iter()).all(|(p, q)| j_eq(p, q)),
        (J::Obj(x), J::Obj(y)) => {
            x.len() == y.len()
                && x.iter().all(|(k, v)| y.iter().filter(|(k2, _)| k2 == k).count() == 1 && y.iter().any(|(k2, v2)| k2 == k && j_eq(v, v2)))
        }
        _ => false,
    }
}

// ---------------------------------------------------------------------------------------
// formats

fn all_digits(s: &str) -> bool {
    !s.is_empty() && s.bytes().all(|c| c.is_ascii_digit())
}

pub fn is_leap(y: u32) -> bool {
    (y % 4 == 0 && y % 100 != 0) || y % 400 == 0
}

pub fn fmt_date(s: &str) -> bool {
    let b = s.as_bytes();
    if b.len() != 10 || b[4] != b'-' || b[7] != b'-' || !s.is_ascii() {
        return false;
    }
    let (y, m, d) = (&s[0..4], &s[5..7], &s[8..10]);
    if !all_digits(y) || !all_digits(m) || !all_digits(d) {
        return false;
    }
    let (y, m, d): (u32, u32, u32) = (y.parse().unwrap(), m.parse().unwrap(), d.parse().unwrap());
    let dim = match m {
        1 | 3 | 5 | 7 | 8 | 10 | 12 => 31,
        4 | 6 | 9 | 11 => 30,
        2 => {
            if is_leap(y) {
                29
            } else {
                28
            }
        }
        _ => return false,
    };
    d >= 1 && d <= dim
}

pub fn fmt_time(s: &str) -> bool {
    // HH:MM:SS[.frac](Z|z|+HH:MM|-HH:MM)
    let b = s.as_bytes();
    if !s.is_ascii() || b.len() < 9 || b[2] != b':' || b[5] != b':' {
        return false;
    }
    let (h, m, sec) = (&s[0..2], &s[3..5], &s[6..8]);
    if !all_digits(h) || !all_digits(m) || !all_digits(sec) {
        return false;
    }
    let (h, m, sec): (u32, u32, u32) = (h.parse().unwrap(), m.parse().unwrap(), sec.parse().unwrap());
    if h > 23 || m > 59 || sec > 60 {
        return false;
    }
    let mut rest = &s[8..];
    if let Some(r) = rest.strip_prefix('.') {
        let n = r.bytes().take_while(|c| c.is_ascii_digit()).count();
        if n == 0 {
            return false;
        }
        rest = &r[n..];
    }
    if rest == "Z" || rest == "z" {
        return true;
    }
    let rb = rest.as_bytes();
    if rb.len() != 6 || (rb[0] != b'+' && rb[0] != b'-') || rb[3] != b':' {
        return false;
    }
    let (oh, om) = (&rest[1..3], &rest[4..6]);
    all_digits(oh) && all_digits(om) && oh.parse::<u32>().unwrap() <= 23 && om.parse::<u32>().unwrap() <= 59
}

pub fn fmt_date_time(s: &str) -> bool {
    if !s.is_ascii() || s.len() < 11 {
        return false;
    }
    let sep = s.as_bytes()[10];
    (sep == b'T' || sep == b't') && fmt_date(&s[..10]) && fmt_time(&s[11..])
}

pub fn fmt_duration(s: &str) -> bool {
    // RFC 3339 appendix A
    fn num_unit<'a>(s: &'a str, u: char) -> Option<&'a str> {
        let n = s.bytes().take_while(|c| c.is_ascii_digit()).count();
        if n == 0 {
            return None;
        }
        s[n..].strip_prefix(u)
    }
    fn chain<'a>(mut s: &'a str, units: &[char]) -> Option<&'a str> {
        // at least one unit, units in order, once started the following units are optional but consecutive
        let mut started = false;
        let mut i = 0;
        while i < units.len() {
            if let Some(r) = num_unit(s, units[i]) {
                s = r;
                started = true;
                i += 1;
                // subsequent must be consecutive: dur-year = nY [dur-month]; dur-month = nM [dur-day]
                while i < units.len() {
                    if let Some(r2) = num_unit(s, units[i]) {
                        s = r2;
                        i += 1;
                    } else {
                        break;
                    }
                }
                break;
            }
            i += 1;
        }
        if started {
            Some(s)
        } else {
            None
        }
    }
    let Some(r) = s.strip_prefix('P') else { return false };
    if !s.is_ascii() {
        return false;
    }
    if let Some(w) = num_unit(r, 'W') {
        return w.is_empty();
    }
    if let Some(t) = r.strip_prefix('T') {
        return chain(t, &['H', 'M', 'S']).map_or(false, |x| x.is_empty());
    }
    match chain(r, &['Y', 'M', 'D']) {
        Some("") => true,
        Some(rest) => match rest.strip_prefix('T') {
            Some(t) => chain(t, &['H', 'M', 'S']).map_or(false, |x| x.is_empty()),
            None => false,
        },
        None => false,
    }
}

pub fn fmt_ipv4(s: &str) -> bool {
    let parts: Vec<&str> = s.split('.').collect();
    parts.len() == 4
        && parts.iter().all(|p| all_digits(p) && p.len() <= 3 && (p.len() == 1 || !p.starts_with('0')) && p.parse::<u32>().unwrap() <= 255)
}

pub fn fmt_ipv6(s: &str) -> bool {
    s.is_ascii() && !s.contains('%') && s.parse::<std::net::Ipv6Addr>().is_ok()
}

pub fn fmt_uuid(s: &str) -> bool {
    let b = s.as_bytes();
    b.len() == 36
        && b.iter().enumerate().all(|(i, c)| if [8, 13, 18, 23].contains(&i) { *c == b'-' } else { c.is_ascii_hexdigit() })
}

fn label_ok(l: &str, max: usize) -> bool {
    let b = l.as_bytes();
    !b.is_empty()
        && b.len() <= max
        && b.iter().all(|c| c.is_ascii_alphanumeric() || *c == b'-')
        && b[0] != b'-'
        && b[b.len() - 1] != b'-'
}

pub fn fmt_hostname(s: &str) -> bool {
    s.len() <= 253 && !s.is_empty() && s.split('.').all(|l| label_ok(l, 63))
}

pub fn fmt_email(s: &str) -> bool {
    let Some(at) = s.rfind('@') else { return false };
    let (local, domain) = (&s[..at], &s[at + 1..]);
    let atext = |c: u8| c.is_ascii_alphanumeric() || b"!#$%&'*+-/=?^_`{|}~".contains(&c);
    if local.is_empty() || !local.split('.').all(|p| !p.is_empty() && p.bytes().all(atext)) {
        return false;
    }
    if let Some(inner) = domain.strip_prefix('[').and_then(|d| d.strip_suffix(']')) {
        return fmt_ipv4(inner) || inner.strip_prefix("IPv6:").map_or(false, fmt_ipv6);
    }
    !domain.is_empty() && domain.split('.').all(|l| label_ok(l, usize::MAX))
}

pub fn check_format(name: &str, s: &str) -> Option<bool> {
    Some(match name {
        "date" => fmt_date(s),
        "time" => fmt_time(s),
        "date-time" => fmt_date_time(s),
        "duration" => fmt_duration(s),
        "ipv4" => fmt_ipv4(s),
        "ipv6" => fmt_ipv6(s),
        "uuid" => fmt_uuid(s),
        "hostname" => fmt_hostname(s),
        "email" => fmt_email(s),
        _ => return None,
    })
}

// ---------------------------------------------------------------------------------------
// validator

pub struct Validator<'a> {
    pub root: &'a Value,
    /// set when a declared property occurred twice
    pub dup_declared: std::cell::Cell<bool>,
    pub unknown_format: std::cell::Cell<bool>,
}

fn type_of(j: &J) -> &'static str {
    match j {
        J::Null => "null",
        J::Bool(_) => "boolean",
        J::Num(_) => "number",
        J::Str(_) => "string",
        J::Arr(_) => "array",
        J::Obj(_) => "object",
    }
}

fn num_bound(v: &Value) -> Option<Dec> {
    v.as_number().and_then(Dec::from_json_number)
}

impl<'a> Validator<'a> {
    pub fn new(root: &'a Value) -> Self {
        Validator { root, dup_declared: std::cell::Cell::new(false), unknown_format: std::cell::Cell::new(false) }
    }

    fn resolve(&self, r: &str) -> Option<&'a Value> {
        if r == "#" {
            return Some(self.root);
        }
        let path = r.strip_prefix("#/")?;
        let mut cur = self.root;
        for seg in path.split('/') {
            let seg = seg.replace("~1", "/").replace("~0", "~");
            cur = match cur {
                Value::Object(o) => o.get(&seg)?,
                Value::Array(a) => a.get(seg.parse::<usize>().ok()?)?,
                _ => return None,
            };
        }
        Some(cur)
    }

    pub fn valid(&self, schema: &Value, inst: &J) -> bool {
        self.valid_d(schema, inst, 0)
    }

    fn valid_d(&self, schema: &Value, inst: &J, depth: usize) -> bool {
        if depth > 64 {
            return false;
        }
        let o = match schema {
            Value::Bool(b) => return *b,
            Value::Object(o) => o,
            _ => return true,
        };
        if let Some(r) = o.get("$ref").and_then(|r| r.as_str()) {
            match self.resolve(r) {
                Some(t) => {
                    if !self.valid_d(t, inst, depth + 1) {
                        return false;
                    }
                }
                None => return false,
            }
        }
        if let Some(t) = o.get("type") {
            let ok_ty = |name: &str| -> bool {
                match name {
                    "integer" => matches!(inst, J::Num(n) if Dec::parse(n).map_or(false, |d| d.is_integer())),
                    "number" => matches!(inst, J::Num(_)),
                    x => type_of(inst) == x,
                }
            };
            let ok = match t {
                Value::String(s) => ok_ty(s),
                Value::Array(a) => a.iter().any(|x| x.as_str().map_or(false, |s| ok_ty(s))),
                _ => true,
            };
            if !ok {
                return false;
            }
        }
        if let Some(c) = o.get("const") {
            if !j_eq(&from_value(c), inst) {
                return false;
            }
        }
        if let Some(Value::Array(e)) = o.get("enum") {
            if !e.iter().any(|x| j_eq(&from_value(x), inst)) {
                return false;
            }
        }
        if let Some(Value::Array(a)) = o.get("allOf") {
            if !a.iter().all(|s| self.valid_d(s, inst, depth + 1)) {
                return false;
            }
        }
        if let Some(Value::Array(a)) = o.get("anyOf") {
            if !a.iter().any(|s| self.valid_d(s, inst, depth + 1)) {
                return false;
            }
        }
        if let Some(Value::Array(a)) = o.get("oneOf") {
            if a.iter().filter(|s| self.valid_d(s, inst, depth + 1)).count() != 1 {
                return false;
            }
        }
        match inst {
            J::Num(lit) => {
                let Some(v) = Dec::parse(lit) else { return false };
                if let Some(b) = o.get("minimum").and_then(num_bound) {
                    if v.cmp(&b) == std::cmp::Ordering::Less {
                        return false;
                    }
                }
                if let Some(b) = o.get("maximum").and_then(num_bound) {
                    if v.cmp(&b) == std::cmp::Ordering::Greater {
                        return false;
                    }
                }
                if let Some(b) = o.get("exclusiveMinimum").and_then(num_bound) {
                    if v.cmp(&b) != std::cmp::Ordering::Greater {
                        return false;
                    }
                }
                if let Some(b) = o.get("exclusiveMaximum").and_then(num_bound) {
                    if v.cmp(&b) != std::cmp::Ordering::Less {
                        return false;
                    }
                }
                if let Some(m) = o.get("multipleOf").and_then(num_bound) {
                    if v.is_multiple_of(&m) != Some(true) {
                        return false;
                    }
                }
            }
            J::Str(s) => {
                let n = s.chars().count() as u64;
                if let Some(mn) = o.get("minLength").and_then(|x| x.as_u64()) {
                    if n < mn {
                        return false;
                    }
                }
                if let Some(mx) = o.get("maxLength").and_then(|x| x.as_u64()) {
                    if n > mx {
                        return false;
                    }
                }
                if let Some(p) = o.get("pattern").and_then(|x| x.as_str()) {
                    match regex::Regex::new(p) {
                        Ok(re) => {
                            if !re.is_match(s) {
                                return false;
                            }
                        }
                        Err(_) => return false,
                    }
                }
                if let Some(f) = o.get("format").and_then(|x| x.as_str()) {
                    match check_format(f, s) {
                        Some(true) => {}
                        Some(false) => return false,
                        None => self.unknown_format.set(true),
                    }
                }
            }
            J::Arr(items) => {
                if let Some(mn) = o.get("minItems").and_then(|x| x.as_u64()) {
                    if (items.len() as u64) < mn {
                        return false;
                    }
                }
                if let Some(mx) = o.get("maxItems").and_then(|x| x.as_u64()) {
                    if (items.len() as u64) > mx {
                        return false;
                    }
                }
                let prefix: &[Value] = o.get("prefixItems").and_then(|x| x.as_array()).map(|a| a.as_slice()).unwrap_or(&[]);
                for (i, it) in items.iter().enumerate() {
                    if i < prefix.len() {
                        if !self.valid_d(&prefix[i], it, depth + 1) {
                            return false;
                        }
                    } else if let Some(s) = o.get("items") {
                        if !self.valid_d(s, it, depth + 1) {
                            return false;
                        }
                    }
                }
            }
            J::Obj(entries) => {
                let props = o.get("properties").and_then(|x| x.as_object());
                let pats = o.get("patternProperties").and_then(|x| x.as_object());
                let addl = o.get("additionalProperties");
                if let Some(Value::Array(req)) = o.get("required") {
                    for r in req {
                        if let Some(r) = r.as_str() {
                            if !entries.iter().any(|(k, _)| k == r) {
                                return false;
                            }
                        }
                    }
                }
                // documented departure: entries matched only by additional/patternProperties may
                // repeat; each entry is validated on its own and counted on its own
                if let Some(mn) = o.get("minProperties").and_then(|x| x.as_u64()) {
                    if (entries.len() as u64) < mn {
                        return false;
                    }
                }
                if let Some(mx) = o.get("maxProperties").and_then(|x| x.as_u64()) {
                    if (entries.len() as u64) > mx {
                        return false;
                    }
                }
                for (idx, (k, v)) in entries.iter().enumerate() {
                    let mut matched = false;
                    if let Some(ps) = props {
                        if let Some(s) = ps.get(k) {
                            matched = true;
                            if entries.iter().take(idx).any(|(k2, _)| k2 == k) {
                                self.dup_declared.set(true);
                                return false;
                            }
                            if !self.valid_d(s, v, depth + 1) {
                                return false;
                            }
                        }
                    }
                    if let Some(pp) = pats {
                        for (pat, s) in pp {
                            if let Ok(re) = regex::Regex::new(pat) {
                                if re.is_match(k) {
                                    matched = true;
                                    if !self.valid_d(s, v, depth + 1) {
                                        return false;
                                    }
                                }
                            }
                        }
                    }
                    if !matched {
                        if let Some(a) = addl {
                            if !self.valid_d(a, v, depth + 1) {
                                return false;
                            }
                        }
                    }
                }
            }
            _ => {}
        }
        true
    }
}

/// convenience: parse and validate an output; Err(reason) when not well-formed or not valid
pub fn check_output(schema: &Value, bytes: &[u8]) -> Result<(), String> {
    let j = parse_json(bytes).map_err(|e| format!("not well-formed JSON: {e}"))?;
    let v = Validator::new(schema);
    if v.valid(schema, &j) {
        Ok(())
    } else if v.dup_declared.get() {
        Err("declared property repeated".into())
    } else {
        Err("does not validate".into())
    }
}
