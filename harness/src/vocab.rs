//! Vocabularies: real TokEnvs built through TokTrie::from (production trie code).
use crate::common::{hex, unhex};
use serde_json::{json, Value};
use std::collections::BTreeSet;
use std::sync::Arc;
use toktrie::{TokEnv, TokRxInfo, TokTrie, TokenId, TokenizerEnv};

#[derive(Clone, Debug)]
pub struct VocabSpec {
    pub name: String,
    pub tokens: Vec<Vec<u8>>,
    pub eos: u32,
    pub extra_eos: Vec<u32>,
    pub canonical: bool,
}

pub struct GreedyEnv {
    trie: TokTrie,
    canonical: bool,
}

impl TokenizerEnv for GreedyEnv {
    fn tok_trie(&self) -> &TokTrie {
        &self.trie
    }
    fn tokenize_bytes(&self, s: &[u8]) -> Vec<TokenId> {
        self.trie.greedy_tokenize(s)
    }
    fn tokenize_is_canonical(&self) -> bool {
        self.canonical
    }
}

pub const EOS_BYTES: &[u8] = b"\xFF<eos>";

impl VocabSpec {
    pub fn build(&self) -> TokEnv {
        let info = TokRxInfo {
            vocab_size: self.tokens.len() as u32,
            tok_eos: self.eos,
            tok_bos: None,
            tok_pad: None,
            tok_unk: None,
            tok_end_of_turn: None,
        };
        let mut trie = TokTrie::from(&info, &self.tokens);
        if !self.extra_eos.is_empty() {
            let mut all = vec![self.eos];
            all.extend_from_slice(&self.extra_eos);
            trie = trie.with_eos_tokens(&all);
        }
        Arc::new(GreedyEnv {
            trie,
            canonical: self.canonical,
        })
    }

    pub fn n(&self) -> usize {
        self.tokens.len()
    }

    pub fn to_json(&self) -> Value {
        json!({
            "name": self.name,
            "tokens_hex": self.tokens.iter().map(|t| hex(t)).collect::<Vec<_>>(),
            "eos": self.eos,
            "extra_eos": self.extra_eos,
            "canonical": self.canonical,
        })
    }

    pub fn from_json(v: &Value) -> Self {
        VocabSpec {
            name: v["name"].as_str().unwrap_or("").to_string(),
            tokens: v["tokens_hex"]
                .as_array()
                .unwrap()
                .iter()
                .map(|t| unhex(t.as_str().unwrap()))
                .collect(),
            eos: v["eos"].as_u64().unwrap() as u32,
            extra_eos: v["extra_eos"]
                .as_array()
                .map(|a| a.iter().map(|x| x.as_u64().unwrap() as u32).collect())
                .unwrap_or_default(),
            canonical: v["canonical"].as_bool().unwrap_or(false),
        }
    }

    pub fn canonical(mut self, c: bool) -> Self {
        self.canonical = c;
        if c {
            self.name.push_str("+canon");
        }
        self
    }

    pub fn covers_bytes(&self, bytes: &BTreeSet<u8>) -> bool {
        bytes
            .iter()
            .all(|b| self.tokens.iter().any(|t| t.len() == 1 && t[0] == *b))
    }

    pub fn is_byte_complete(&self) -> bool {
        (0u8..=254).all(|b| self.tokens.iter().any(|t| t.len() == 1 && t[0] == b))
    }

    pub fn token_id(&self, bytes: &[u8]) -> Option<u32> {
        // last one wins in the trie for duplicates; here first occurrence is enough
        self.tokens.iter().position(|t| t == bytes).map(|i| i as u32)
    }
}

/// B(Σ): one token per byte of the alphabet + EOS
pub fn bytes_vocab(alphabet: &[u8]) -> VocabSpec {
    let set: BTreeSet<u8> = alphabet.iter().copied().filter(|b| *b != 0xFF).collect();
    let mut tokens: Vec<Vec<u8>> = set.iter().map(|b| vec![*b]).collect();
    tokens.push(EOS_BYTES.to_vec());
    let eos = tokens.len() as u32 - 1;
    VocabSpec {
        name: format!("B({})", set.len()),
        tokens,
        eos,
        extra_eos: vec![],
        canonical: false,
    }
}

/// B256: all single bytes except the marker byte 0xFF as ordinary tokens, the bare
/// marker token, five specials and EOS (the shape of ApproximateTokEnv::single_byte()).
pub fn b256() -> VocabSpec {
    let mut tokens: Vec<Vec<u8>> = (0..=255u8).map(|b| vec![b]).collect();
    tokens.push(b"\xFF<|tool|>".to_vec());
    tokens.push(b"\xFF<|user|>".to_vec());
    tokens.push(b"\xFF<a>".to_vec());
    tokens.push(b"\xFFab".to_vec());
    tokens.push(EOS_BYTES.to_vec());
    let eos = tokens.len() as u32 - 1;
    VocabSpec {
        name: "B256".to_string(),
        tokens,
        eos,
        extra_eos: vec![],
        canonical: false,
    }
}

fn all_strings(alpha: &[u8], len: usize, out: &mut Vec<Vec<u8>>) {
    let mut cur = vec![0usize; len];
    loop {
        out.push(cur.iter().map(|i| alpha[*i]).collect());
        let mut p = len;
        loop {
            if p == 0 {
                return;
            }
            p -= 1;
            cur[p] += 1;
            if cur[p] < alpha.len() {
                break;
            }
            cur[p] = 0;
        }
    }
}

/// M(Σ,k): B(Σ) plus every string of length 2..k over `sub`, plus substrings (len<=4) of
/// `sentences`, plus odd entries: duplicate, empty entry, UTF-8 partials, specials.
pub fn multi_vocab(alphabet: &[u8], sub: &[u8], k: usize, sentences: &[&[u8]], odd: bool) -> VocabSpec {
    let mut v = bytes_vocab(alphabet);
    v.tokens.pop(); // remove EOS, re-add at end
    let mut seen: BTreeSet<Vec<u8>> = v.tokens.iter().cloned().collect();
    let mut add = |t: Vec<u8>, toks: &mut Vec<Vec<u8>>| {
        if !t.is_empty() && !t.contains(&0xFF) && seen.insert(t.clone()) {
            toks.push(t);
        }
    };
    for len in 2..=k {
        let mut out = vec![];
        if !sub.is_empty() {
            all_strings(sub, len, &mut out);
        }
        for t in out {
            add(t, &mut v.tokens);
        }
    }
    for s in sentences {
        for len in 2..=4usize {
            if s.len() < len {
                continue;
            }
            for i in 0..=(s.len() - len) {
                add(s[i..i + len].to_vec(), &mut v.tokens);
            }
        }
    }
    if odd {
        // duplicate of an existing multi-byte token (or first token)
        let dup = v.tokens.iter().find(|t| t.len() >= 2).cloned().unwrap_or(v.tokens[0].clone());
        v.tokens.push(dup);
        // an empty entry
        v.tokens.push(vec![]);
        // specials whose names look like text
        v.tokens.push(b"\xFF<a>".to_vec());
        v.tokens.push(b"\xFFab".to_vec());
    }
    v.tokens.push(EOS_BYTES.to_vec());
    v.eos = v.tokens.len() as u32 - 1;
    v.name = format!("M({},{},{}tok{})", alphabet.len(), k, v.tokens.len(), if odd { ",odd" } else { "" });
    v
}

/// Collect the bytes of a set of sentences (alphabet helper)
pub fn alphabet_of(sentences: &[&[u8]], extra: &[u8]) -> Vec<u8> {
    let mut s: BTreeSet<u8> = BTreeSet::new();
    for x in sentences {
        s.extend(x.iter().copied());
    }
    s.extend(extra.iter().copied());
    s.into_iter().collect()
}

/// T(n): first n ranks of a real BPE vocabulary (cl100k_base shipped inside tiktoken-rs),
/// plus any missing single bytes, plus EOS. Tokenisation = the repo's own tiktoken adapter is
/// exercised in C16; here the trie is what matters, tokenisation is greedy.
pub fn tiktoken_vocab(n: usize, canonical: bool) -> VocabSpec {
    let mut toks = crate::tiktoken_data::cl100k_ranks(n);
    let have: BTreeSet<Vec<u8>> = toks.iter().cloned().collect();
    for b in 0u8..=254 {
        if !have.contains(&vec![b]) {
            toks.push(vec![b]);
        }
    }
    toks.push(EOS_BYTES.to_vec());
    let eos = toks.len() as u32 - 1;
    VocabSpec {
        name: format!("T({}){}", n, if canonical { "+canon" } else { "" }),
        tokens: toks,
        eos,
        extra_eos: vec![],
        canonical,
    }
}
