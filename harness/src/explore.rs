//! Explicit-state breadth-first exploration whose transition function is the real engine.
use llguidance::Matcher;
use std::collections::{HashSet, VecDeque};

#[derive(Clone, Debug)]
pub struct ExploreCfg {
    pub max_depth: usize,
    pub max_states: usize,
    /// dedup on the canonical committed-state key (hook H2); false = identity key (history)
    pub use_key: bool,
}

#[derive(Clone, Debug, Default)]
pub struct ExploreStats {
    pub states: u64,
    pub transitions: u64,
    pub depth_completed: usize,
    /// the frontier ran dry below max_depth: the whole reachable state space was visited
    pub closure_complete: bool,
    pub cap_hit: bool,
    pub failed_commits: Vec<(Vec<u32>, u32, String)>,
}

pub fn key128(k: &[u64]) -> u128 {
    let mut h1: u64 = 0xcbf29ce484222325;
    let mut h2: u64 = 0x9E3779B97F4A7C15;
    for w in k {
        h1 ^= *w;
        h1 = h1.wrapping_mul(0x100000001b3);
        h1 ^= h1 >> 29;
        h2 = (h2 ^ *w).wrapping_mul(0xff51afd7ed558ccd);
        h2 ^= h2 >> 32;
        h2 = h2.rotate_left(17).wrapping_add(*w);
    }
    ((h1 as u128) << 64) | h2 as u128
}

pub fn state_key(m: &Matcher) -> u128 {
    match m.verif_state_key() {
        Some(k) => key128(&k),
        None => 1, // error state
    }
}

struct Node {
    m: Matcher,
    id: u32,
    depth: u32,
}

/// `visit(state, history, depth)` runs the per-state checks and returns the successor
/// tokens to expand (normally: the mask). Returning `None` aborts the search.
pub fn explore(
    root: Matcher,
    cfg: &ExploreCfg,
    mut visit: impl FnMut(&mut Matcher, &[u32], usize) -> Option<Vec<u32>>,
) -> ExploreStats {
    let mut st = ExploreStats::default();
    let mut parents: Vec<(u32, u32)> = vec![(u32::MAX, 0)];
    let mut seen: HashSet<u128> = HashSet::new();
    if cfg.use_key {
        seen.insert(state_key(&root));
    }
    let mut q = VecDeque::new();
    q.push_back(Node { m: root, id: 0, depth: 0 });
    let hist_of = |parents: &Vec<(u32, u32)>, mut id: u32| {
        let mut h = vec![];
        while parents[id as usize].0 != u32::MAX {
            h.push(parents[id as usize].1);
            id = parents[id as usize].0;
        }
        h.reverse();
        h
    };
    let mut last_depth = 0;
    let mut depth_truncated = false;
    while let Some(mut node) = q.pop_front() {
        crate::watchdog::beat();
        if node.depth as usize > last_depth {
            st.depth_completed = last_depth;
            last_depth = node.depth as usize;
        }
        st.states += 1;
        let hist = hist_of(&parents, node.id);
        let Some(succ) = visit(&mut node.m, &hist, node.depth as usize) else {
            return st;
        };
        if succ.is_empty() {
            continue;
        }
        if node.depth as usize >= cfg.max_depth {
            depth_truncated = true;
            continue;
        }
        for t in succ {
            let mut c = node.m.clone();
            st.transitions += 1;
            if let Err(e) = c.consume_token(t) {
                if st.failed_commits.len() < 20 {
                    st.failed_commits.push((hist.clone(), t, e.to_string()));
                }
                continue;
            }
            if cfg.use_key {
                let k = state_key(&c);
                if !seen.insert(k) {
                    continue;
                }
            }
            if parents.len() >= cfg.max_states {
                st.cap_hit = true;
                continue;
            }
            let id = parents.len() as u32;
            parents.push((node.id, t));
            q.push_back(Node { m: c, id, depth: node.depth + 1 });
        }
    }
    st.depth_completed = last_depth;
    st.closure_complete = !depth_truncated && !st.cap_hit;
    st
}

struct PairNode {
    a: Matcher,
    b: Matcher,
    id: u32,
    depth: u32,
}

/// Lock-step exploration of two real engines. `visit(a, b, hist, depth)` checks the pair and
/// returns the successor moves: (token for A, token sequence for B). A pair is expanded once
/// per (key(A), key(B)).
pub fn explore_pair(
    root_a: Matcher,
    root_b: Matcher,
    cfg: &ExploreCfg,
    mut visit: impl FnMut(&mut Matcher, &mut Matcher, &[u32], usize) -> Option<Vec<(u32, Vec<u32>)>>,
) -> ExploreStats {
    let mut st = ExploreStats::default();
    let mut parents: Vec<(u32, u32)> = vec![(u32::MAX, 0)];
    let mut seen: HashSet<(u128, u128)> = HashSet::new();
    if cfg.use_key {
        seen.insert((state_key(&root_a), state_key(&root_b)));
    }
    let mut q = VecDeque::new();
    q.push_back(PairNode { a: root_a, b: root_b, id: 0, depth: 0 });
    let hist_of = |parents: &Vec<(u32, u32)>, mut id: u32| {
        let mut h = vec![];
        while parents[id as usize].0 != u32::MAX {
            h.push(parents[id as usize].1);
            id = parents[id as usize].0;
        }
        h.reverse();
        h
    };
    let mut last_depth = 0;
    let mut depth_truncated = false;
    while let Some(mut node) = q.pop_front() {
        crate::watchdog::beat();
        if node.depth as usize > last_depth {
            st.depth_completed = last_depth;
            last_depth = node.depth as usize;
        }
        st.states += 1;
        let hist = hist_of(&parents, node.id);
        let Some(succ) = visit(&mut node.a, &mut node.b, &hist, node.depth as usize) else {
            return st;
        };
        if succ.is_empty() {
            continue;
        }
        if node.depth as usize >= cfg.max_depth {
            depth_truncated = true;
            continue;
        }
        for (ta, tbs) in succ {
            let mut ca = node.a.clone();
            let mut cb = node.b.clone();
            st.transitions += 1;
            let ra = ca.consume_token(ta);
            let rb = cb.consume_tokens(&tbs);
            if ra.is_err() || rb.is_err() {
                if st.failed_commits.len() < 20 {
                    let e = format!(
                        "A: {} / B: {}",
                        ra.err().map(|e| e.to_string()).unwrap_or("ok".into()),
                        rb.err().map(|e| e.to_string()).unwrap_or("ok".into())
                    );
                    st.failed_commits.push((hist.clone(), ta, e));
                }
                continue;
            }
            if cfg.use_key {
                let k = (state_key(&ca), state_key(&cb));
                if !seen.insert(k) {
                    continue;
                }
            }
            if parents.len() >= cfg.max_states {
                st.cap_hit = true;
                continue;
            }
            let id = parents.len() as u32;
            parents.push((node.id, ta));
            q.push_back(PairNode { a: ca, b: cb, id, depth: node.depth + 1 });
        }
    }
    st.depth_completed = last_depth;
    st.closure_complete = !depth_truncated && !st.cap_hit;
    st
}
