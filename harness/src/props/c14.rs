//! C14 — clones are independent and results do not depend on scheduling.
//! Layer 1: every interleaving of the API-call scripts of 2-3 engines cloned from one root
//! (shared lexer and deep clones), executed on one thread. Layer 2: all lock-level schedules
//! with at most p pre-emptions under a controlled scheduler (hook H3), real threads. Layer 3
//! (sampled, labelled so, never deciding alone): free-running threads and llg_par_compute_mask.
use crate::common::*;
use crate::engine::*;
use crate::sched::*;
use crate::vocab::{self, VocabSpec};
use llguidance::Matcher;
use rayon::prelude::*;
use serde_json::json;
use std::collections::HashMap;
use std::sync::atomic::{AtomicU64, Ordering};

#[derive(Clone, Debug, PartialEq, Eq, Hash)]
enum Call {
    Mask,
    Commit(u32),
    ValidateAll,
    Rollback1,
    FfBytes,
    Accepting,
}

impl Call {
    fn enc(&self) -> String {
        match self {
            Call::Mask => "mask".into(),
            Call::Commit(t) => format!("commit:{t}"),
            Call::ValidateAll => "validate_all".into(),
            Call::Rollback1 => "rollback1".into(),
            Call::FfBytes => "ff_bytes".into(),
            Call::Accepting => "accepting".into(),
        }
    }
    fn dec(s: &str) -> Option<Call> {
        Some(match s {
            "mask" => Call::Mask,
            "validate_all" => Call::ValidateAll,
            "rollback1" => Call::Rollback1,
            "ff_bytes" => Call::FfBytes,
            "accepting" => Call::Accepting,
            _ => Call::Commit(s.strip_prefix("commit:")?.parse().ok()?),
        })
    }
}

/// `./check replay <file>` for a layer-2 violation: re-run the recorded schedule (twice) under the
/// controlled scheduler, without the explorer
pub fn replay_schedule(d: &serde_json::Value) -> i32 {
    let g = GrammarSpec::from_json(&d["grammar"]);
    let vocab = VocabSpec::from_json(&d["vocab"]);
    let f = Factory::new(&vocab, &Slices::Default).unwrap();
    let nv = f.n_vocab as u32;
    let threads: Vec<(Vec<u32>, bool, Vec<Call>)> = d["threads"]
        .as_array()
        .cloned()
        .unwrap_or_default()
        .iter()
        .zip(d["scripts_enc"].as_array().cloned().unwrap_or_default().iter())
        .map(|(t, s)| {
            let h: Vec<u32> = t["history"].as_array().map(|a| a.iter().map(|x| x.as_u64().unwrap() as u32).collect()).unwrap_or_default();
            let sc: Vec<Call> = s.as_array().map(|a| a.iter().filter_map(|x| Call::dec(x.as_str().unwrap_or(""))).collect()).unwrap_or_default();
            (h, t["deep_clone"].as_bool().unwrap_or(false), sc)
        })
        .collect();
    let schedule: Vec<usize> = d["schedule"].as_array().map(|a| a.iter().map(|x| x.as_u64().unwrap() as usize).collect()).unwrap_or_default();
    println!("grammar: {}", g.short());
    for (i, (h, deep, sc)) in threads.iter().enumerate() {
        println!("thread {i}: history {:?} deep_clone={} script {:?}", h, deep, sc.iter().map(|c| c.enc()).collect::<Vec<_>>());
        println!("  expected (private engine): {:?}", private_obs(&f, &g, h, sc));
    }
    println!("schedule: {:?}", schedule);
    for round in 0..2 {
        let root = f.matcher(&g);
        let bodies: Vec<Box<dyn FnOnce() -> Vec<String> + Send>> = threads
            .iter()
            .map(|(h, deep, sc)| {
                let mut m = if *deep { root.deep_clone() } else { root.clone() };
                let _ = m.consume_tokens(h);
                let sc = sc.clone();
                Box::new(move || sc.iter().map(|c| obs_call(&mut m, c, nv)).collect::<Vec<String>>()) as Box<dyn FnOnce() -> Vec<String> + Send>
            })
            .collect();
        let r = std::panic::catch_unwind(std::panic::AssertUnwindSafe(|| run_schedule(bodies, &schedule)));
        match r {
            Ok(r) => println!("run {round}: deadlock={} panics={:?}\n  got {:?}", r.deadlock, r.panics, r.results),
            Err(_) => println!("run {round}: schedule replay diverged (the code under test no longer offers this schedule)"),
        }
    }
    0
}

fn obs_call(m: &mut Matcher, c: &Call, nv: u32) -> String {
    match c {
        Call::Mask => match m.compute_mask() {
            Ok(mk) => format!("mask{:?}", mask_to_vec(&mk)),
            Err(_) => "mask-err".into(),
        },
        Call::Commit(t) => format!("commit{}:{}", t, m.consume_token(*t).is_ok()),
        Call::ValidateAll => {
            let v: Vec<u32> = (0..nv).filter(|t| m.validate_tokens(&[*t]).unwrap_or(0) == 1).collect();
            format!("valid{:?}", v)
        }
        Call::Rollback1 => format!("rollback:{}", m.rollback(1).is_ok()),
        Call::FfBytes => format!("ff{:?}", m.compute_ff_bytes()),
        Call::Accepting => format!("acc:{}:{}", m.is_accepting().unwrap_or(false), m.is_stopped()),
    }
}

struct G14 {
    name: &'static str,
    g: GrammarSpec,
    vocab: VocabSpec,
}

fn grammars() -> Vec<G14> {
    let mut v1 = vocab::bytes_vocab(b"abcxyz<> ");
    v1.tokens.pop();
    for t in ["ab", "bb", "bc", "xy", "<f", "a b"] {
        v1.tokens.push(t.as_bytes().to_vec());
    }
    v1.tokens.push(vocab::EOS_BYTES.to_vec());
    v1.eos = v1.tokens.len() as u32 - 1;
    v1.name = "T14".into();
    let mk = |name: &'static str, src: &str| G14 { name, g: GrammarSpec::Lark(src.to_string()), vocab: v1.clone() };
    vec![
        mk("lazy-two-routes", "start: word \"c\"\nword[lazy]: /a?b+/"),
        mk("alt-x", "start: \"a\" X \"c\" | \"b\" X \"y\"\nX: /x+/"),
        mk("two-lexemes", "start: A B? \"z\"\nA: /a+/\nB: /b+c?/"),
        mk("lazy-greedy", "start: hd \"x\" | TEXT\nTEXT: /[a-c<]*/\nhd[lazy]: TEXT \"<f\""),
        mk("ignore", "start: \"a\" \"b\"+ \"c\"\n%ignore / +/"),
        mk("and-not", "start: T \"z\"\nT: /[abc]+/ & ~/.*bb.*/"),
        // sibling histories of equal length that differ in acceptance (same row, same lexer state)
        mk("accept-diverge", "start: \"a\" \"b\"? | \"c\" \"b\""),
        mk("accept-diverge-x", "start: \"x\" (\"a\" \"b\"? | \"c\" \"b\")"),
        G14 { name: "json", g: GrammarSpec::Json(json!({"type": "object", "properties": {"a": {"enum": ["x", "xy"]}}, "required": ["a"], "additionalProperties": false})), vocab: {
            let mut v = vocab::bytes_vocab(b"{}\":axy, ");
            v.tokens.pop();
            for t in ["{\"", "\":", "\"a\"", "xy", "\"}"] {
                v.tokens.push(t.as_bytes().to_vec());
            }
            v.tokens.push(vocab::EOS_BYTES.to_vec());
            v.eos = v.tokens.len() as u32 - 1;
            v.name = "J14".into();
            v
        } },
    ]
}

/// reachable histories (token lists) up to depth d, <= 3 successors per state
fn histories(f: &Factory, g: &GrammarSpec, d: usize) -> Vec<Vec<u32>> {
    let mut out = vec![vec![]];
    let mut frontier = vec![vec![]];
    for _ in 0..d {
        let mut next = vec![];
        for h in frontier.iter() {
            let Ok(mut m) = replay(f, g, h) else { continue };
            if m.is_stopped() {
                continue;
            }
            let Ok(mask) = m.compute_mask() else { continue };
            let toks: Vec<u32> = mask.iter().collect();
            let picks: Vec<u32> = if toks.len() <= 3 { toks } else { vec![toks[0], toks[toks.len() / 2], toks[toks.len() - 1]] };
            for t in picks {
                let mut h2 = h.clone();
                h2.push(t);
                next.push(h2);
            }
        }
        out.extend(next.iter().cloned());
        frontier = next;
    }
    out
}

/// scripts of exactly `len` calls that are legal for a private engine starting at `hist`
fn scripts(f: &Factory, g: &GrammarSpec, hist: &[u32], len: usize, rich: bool) -> Vec<Vec<Call>> {
    let mut out = vec![];
    fn rec(f: &Factory, m: &Matcher, n_hist: usize, cur: &mut Vec<Call>, len: usize, rich: bool, out: &mut Vec<Vec<Call>>) {
        if cur.len() == len {
            out.push(cur.clone());
            return;
        }
        let mut calls = vec![Call::Mask, Call::ValidateAll];
        if rich {
            calls.push(Call::FfBytes);
        }
        if !m.is_stopped() {
            if let Ok(mk) = m.clone().compute_mask() {
                let toks: Vec<u32> = mk.iter().collect();
                for t in toks.iter().take(if rich { 2 } else { 1 }) {
                    calls.push(Call::Commit(*t));
                }
                if toks.len() > 2 {
                    calls.push(Call::Commit(*toks.last().unwrap()));
                }
            }
        }
        if n_hist > 0 {
            calls.push(Call::Rollback1);
        }
        for c in calls {
            let mut m2 = m.clone();
            let nh = match &c {
                Call::Commit(t) => {
                    if m2.consume_token(*t).is_err() {
                        continue;
                    }
                    n_hist + 1
                }
                Call::Rollback1 => {
                    if m2.rollback(1).is_err() {
                        continue;
                    }
                    n_hist - 1
                }
                _ => n_hist,
            };
            cur.push(c);
            rec(f, &m2, nh, cur, len, rich, out);
            cur.pop();
        }
    }
    if let Ok(m) = replay(f, g, hist) {
        rec(f, &m, hist.len(), &mut vec![], len, rich, &mut out);
    }
    out
}

/// observations of a script run alone on a private, freshly built engine
fn private_obs(f: &Factory, g: &GrammarSpec, hist: &[u32], script: &[Call]) -> Vec<String> {
    let mut m = replay(f, g, hist).expect("history replays");
    let nv = f.n_vocab as u32;
    script.iter().map(|c| obs_call(&mut m, c, nv)).collect()
}

fn interleavings(a: usize, b: usize) -> Vec<Vec<u8>> {
    // all sequences with a zeros and b ones
    fn rec(a: usize, b: usize, cur: &mut Vec<u8>, out: &mut Vec<Vec<u8>>) {
        if a == 0 && b == 0 {
            out.push(cur.clone());
            return;
        }
        if a > 0 {
            cur.push(0);
            rec(a - 1, b, cur, out);
            cur.pop();
        }
        if b > 0 {
            cur.push(1);
            rec(a, b - 1, cur, out);
            cur.pop();
        }
    }
    let mut out = vec![];
    rec(a, b, &mut vec![], &mut out);
    out
}

fn layer1(ctx: &Ctx) {
    let slen = ctx.tier.pick(2, 3);
    let hdepth = ctx.tier.pick(1, 2);
    let n = AtomicU64::new(0);
    let layer_budget = ctx.budget_s * 0.5;
    let gs = grammars();
    // jobs: (grammar, index of engine A's start history)
    let jobs: Vec<(usize, usize)> = gs.iter().enumerate().flat_map(|(gi, g)| {
        let f = Factory::new(&g.vocab, &Slices::Default).unwrap();
        let nh = histories(&f, &g.g, hdepth).len();
        (0..nh).map(move |ia| (gi, ia))
    }).collect();
    jobs.par_iter().for_each(|(gi, ia_only)| {
        let g = &gs[*gi];
        let f = Factory::new(&g.vocab, &Slices::Default).unwrap();
        let hs = histories(&f, &g.g, hdepth);
        let nv = f.n_vocab as u32;
        let mut memo: HashMap<(Vec<u32>, Vec<Call>), Vec<String>> = HashMap::new();
        let scr: Vec<Vec<Vec<Call>>> = hs.iter().map(|h| scripts(&f, &g.g, h, slen, !ctx.quick())).collect();
        let ils = interleavings(slen, slen);
        for (ia, ha) in hs.iter().enumerate().filter(|(i, _)| i == ia_only) {
            for (ib, hb) in hs.iter().enumerate() {
                if ctx.has_violations() {
                    return;
                }
                if ctx.elapsed() > layer_budget {
                    ctx.count("layer1_history_pairs_skipped_budget", 1);
                    ctx.cap_hit.store(true, Ordering::Relaxed);
                    continue;
                }
                ctx.count("layer1_history_pairs", 1);
                for deep in [false, true] {
                    if deep && (ia + ib) % 3 != 0 {
                        continue;
                    }
                    for sa in scr[ia].iter() {
                        if ctx.elapsed() > layer_budget {
                            ctx.count("layer1_script_rows_skipped_budget", 1);
                            ctx.cap_hit.store(true, Ordering::Relaxed);
                            break;
                        }
                        for sb in scr[ib].iter() {
                            let ea = memo.entry((ha.clone(), sa.clone())).or_insert_with(|| private_obs(&f, &g.g, ha, sa)).clone();
                            let eb = memo.entry((hb.clone(), sb.clone())).or_insert_with(|| private_obs(&f, &g.g, hb, sb)).clone();
                            for il in ils.iter() {
                                // fresh root per execution: the shared automaton starts unpopulated
                                let root = f.matcher(&g.g);
                                let mut a = root.clone();
                                let mut b = if deep { root.deep_clone() } else { root.clone() };
                                let _ = a.consume_tokens(ha);
                                let _ = b.consume_tokens(hb);
                                let (mut pa, mut pb) = (0, 0);
                                let (mut oa, mut ob) = (vec![], vec![]);
                                for who in il {
                                    if *who == 0 {
                                        oa.push(obs_call(&mut a, &sa[pa], nv));
                                        pa += 1;
                                    } else {
                                        ob.push(obs_call(&mut b, &sb[pb], nv));
                                        pb += 1;
                                    }
                                }
                                n.fetch_add(1, Ordering::Relaxed);
                                if oa != ea || ob != eb {
                                    ctx.violation(Violation {
                                        check: "call_interleaving".into(),
                                        class: "clone-interference".into(),
                                        signature: format!("{}|{:?}|{:?}|{:?}|{:?}|{:?}|deep={}", g.name, ha, hb, sa, sb, il, deep),
                                        detail: json!({"kind": "clones", "grammar": g.g.to_json(), "vocab": g.vocab.to_json(), "history_a": ha, "history_b": hb, "script_a": format!("{:?}", sa), "script_b": format!("{:?}", sb),
                                            "interleaving": il, "b_is_deep_clone": deep, "a_got": oa, "a_private": ea, "b_got": ob, "b_private": eb}),
                                    });
                                    return;
                                }
                            }
                        }
                    }
                }
            }
        }
        ctx.outcomes_extend(memo.values().map(|v| fnv(format!("{:?}", v).as_bytes())));
    });
    let c = n.load(Ordering::Relaxed);
    ctx.count("layer1_interleaved_executions", c);
    ctx.states.fetch_add(c, Ordering::Relaxed);
    ctx.transitions.fetch_add(c * 2 * slen as u64, Ordering::Relaxed);
    ctx.validated.fetch_add(c, Ordering::Relaxed);
}

/// Layer 1c: the sampling-loop interface. Two `Constraint`s cloned from one root (shallow, and deep through
/// the parser's deep_clone), brought to two histories through compute_mask / commit_token, then each runs
/// "mask, commit(t), mask": every interleaving of the two 3-call scripts (20), for every pair of histories and
/// every pick of t. Observations (mask / stop / commit result) must equal those of a private fresh Constraint.
fn layer1c(ctx: &Ctx) {
    use llguidance::Constraint;
    let hdepth = ctx.tier.pick(1, 2);
    let n = AtomicU64::new(0);
    let gs = grammars();
    let drive = |c: &mut Constraint, h: &[u32]| -> bool {
        for t in h {
            if c.compute_mask().is_err() {
                return false;
            }
            if c.commit_token(Some(*t)).is_err() {
                return false;
            }
        }
        true
    };
    // one call of the script: 0 / 2 = mask, 1 = commit(t)
    let step = |c: &mut Constraint, i: usize, t: u32| -> String {
        if i == 1 {
            match c.commit_token(Some(t)) {
                Ok(r) => format!("commit{}:stop={}:{:?}", t, r.stop, r.ff_tokens),
                Err(_) => format!("commit{}:err", t),
            }
        } else {
            match c.compute_mask() {
                Ok(r) => format!("mask{:?}:stop={}", r.sample_mask.as_ref().map(mask_to_vec), r.is_stop()),
                Err(_) => "mask-err".into(),
            }
        }
    };
    gs.par_iter().for_each(|g| {
        let f = Factory::new(&g.vocab, &Slices::Default).unwrap();
        let hs = histories(&f, &g.g, hdepth);
        let mk = || f.factory.create_parser(g.g.top()).map(Constraint::new);
        // picks per history: tokens of the mask (<= 3)
        let picks: Vec<Vec<u32>> = hs
            .iter()
            .map(|h| {
                let Ok(mut c) = mk() else { return vec![] };
                if !drive(&mut c, h) {
                    return vec![];
                }
                match c.compute_mask() {
                    Ok(r) if !r.is_stop() => {
                        let v: Vec<u32> = r.sample_mask.as_ref().map(mask_to_vec).unwrap_or_default();
                        if v.len() <= 3 { v } else { vec![v[0], v[v.len() / 2], v[v.len() - 1]] }
                    }
                    _ => vec![],
                }
            })
            .collect();
        let private = |h: &[u32], t: u32| -> Vec<String> {
            let mut c = mk().unwrap();
            drive(&mut c, h);
            (0..3).map(|i| step(&mut c, i, t)).collect()
        };
        let ils = interleavings(3, 3);
        for (ia, ha) in hs.iter().enumerate() {
            for (ib, hb) in hs.iter().enumerate() {
                for ta in picks[ia].iter() {
                    for tb in picks[ib].iter() {
                        if ctx.has_violations() || ctx.over_budget() {
                            return;
                        }
                        crate::watchdog::beat();
                        let (ea, eb) = (private(ha, *ta), private(hb, *tb));
                        for deep in [false, true] {
                            for il in ils.iter() {
                                let Ok(root) = mk() else { return };
                                let mut a = root.clone();
                                let mut b = if deep { Constraint::new(root.parser.deep_clone()) } else { root.clone() };
                                drive(&mut a, ha);
                                drive(&mut b, hb);
                                let (mut pa, mut pb) = (0, 0);
                                let (mut oa, mut ob) = (vec![], vec![]);
                                for who in il {
                                    if *who == 0 {
                                        oa.push(step(&mut a, pa, *ta));
                                        pa += 1;
                                    } else {
                                        ob.push(step(&mut b, pb, *tb));
                                        pb += 1;
                                    }
                                }
                                n.fetch_add(1, Ordering::Relaxed);
                                if oa != ea || ob != eb {
                                    ctx.violation(Violation {
                                        check: "constraint_call_interleaving".into(),
                                        class: "clone-interference".into(),
                                        signature: format!("constraint|{}|{:?}|{:?}|{}|{}|{:?}|deep={}", g.name, ha, hb, ta, tb, il, deep),
                                        detail: json!({"kind": "clones", "interface": "Constraint", "grammar": g.g.to_json(), "vocab": g.vocab.to_json(), "history_a": ha, "history_b": hb, "script_a": format!("mask, commit({ta}), mask"), "script_b": format!("mask, commit({tb}), mask"),
                                            "interleaving": il, "b_is_deep_clone": deep, "a_got": oa, "a_private": ea, "b_got": ob, "b_private": eb}),
                                    });
                                    return;
                                }
                            }
                        }
                        ctx.outcome(fnv(format!("{:?}{:?}", ea, eb).as_bytes()));
                    }
                }
            }
        }
    });
    let c = n.load(Ordering::Relaxed);
    ctx.count("layer1c_constraint_interleaved_executions", c);
    ctx.states.fetch_add(c, Ordering::Relaxed);
    ctx.transitions.fetch_add(c * 6, Ordering::Relaxed);
    ctx.validated.fetch_add(c, Ordering::Relaxed);
}

fn layer2(ctx: &Ctx) {
    let bound = ctx.tier.pick(2, 3);
    let cap = ctx.tier.pick(1500u64, 60_000);
    // wall budget of the layer, shared evenly by the configurations still to run (a configuration
    // that runs out of time is reported as capped, never as fully explored)
    let layer_deadline = ctx.budget_s * 0.85;
    let gs = grammars();
    let total_cfgs = (gs.len() * if ctx.quick() { 3 } else { 4 }) as f64;
    let mut done_cfgs = 0f64;
    for g in gs.into_iter() {
        if ctx.has_violations() {
            break;
        }
        let f = Factory::new(&g.vocab, &Slices::Default).unwrap();
        let hs = histories(&f, &g.g, 2);
        // thread scripts: grow the automaton in one thread while another one reads it
        let pick = |i: usize| hs[i % hs.len()].clone();
        let configs: Vec<Vec<(Vec<u32>, bool)>> = vec![
            vec![(pick(0), false), (pick(1), false)],
            vec![(pick(1), false), (pick(hs.len() - 1), false)],
            vec![(pick(0), false), (pick(2), true)],
            vec![(pick(0), false), (pick(1), false), (pick(2), false)],
        ];
        for (ci, cfgv) in configs.iter().enumerate() {
            if ctx.quick() && ci == 3 {
                continue;
            }
            let nv = f.n_vocab as u32;
            // script per thread: mask, commit first mask token, mask, accepting
            let scripts_v: Vec<Vec<Call>> = cfgv
                .iter()
                .map(|(h, _)| {
                    let mut m = replay(&f, &g.g, h).unwrap();
                    let mut s = vec![Call::Mask];
                    if let Ok(mk) = m.compute_mask() {
                        if let Some(t) = mk.iter().next() {
                            if !m.is_stopped() {
                                s.push(Call::Commit(t));
                            }
                        }
                    }
                    s.push(Call::Mask);
                    s.push(Call::Accepting);
                    s
                })
                .collect();
            let expected: Vec<Vec<String>> = cfgv.iter().zip(scripts_v.iter()).map(|((h, _), s)| private_obs(&f, &g.g, h, s)).collect();
            let mut mk = || -> Vec<Box<dyn FnOnce() -> Vec<String> + Send>> {
                let root = f.matcher(&g.g);
                cfgv.iter()
                    .zip(scripts_v.iter())
                    .map(|((h, deep), s)| {
                        let mut m = if *deep { root.deep_clone() } else { root.clone() };
                        let _ = m.consume_tokens(h);
                        let s = s.clone();
                        Box::new(move || s.iter().map(|c| obs_call(&mut m, c, nv)).collect::<Vec<String>>()) as Box<dyn FnOnce() -> Vec<String> + Send>
                    })
                    .collect()
            };
            let mut first_trace: Option<(Vec<usize>, Vec<Option<Vec<String>>>)> = None;
            let mut bad: Option<Violation> = None;
            let mut check = |r: &RunResult<Vec<String>>, choices: &[usize]| -> bool {
                if first_trace.is_none() {
                    first_trace = Some((choices.to_vec(), r.results.clone()));
                }
                let mut ok = !r.deadlock && r.panics.iter().all(|p| p.is_none());
                for (i, res) in r.results.iter().enumerate() {
                    if res.as_ref() != Some(&expected[i]) {
                        ok = false;
                    }
                }
                if !ok {
                    bad = Some(Violation {
                        check: "lock_level_schedule".into(),
                        class: if r.deadlock { "clone-deadlock".into() } else { "clone-interference".into() },
                        signature: format!("{}|cfg{}|{:?}", g.name, ci, choices),
                        detail: json!({"kind": "schedule", "grammar": g.g.to_json(), "vocab": g.vocab.to_json(), "threads": cfgv.iter().map(|(h, d)| json!({"history": h, "deep_clone": d})).collect::<Vec<_>>(),
                            "scripts": scripts_v.iter().map(|s| format!("{:?}", s)).collect::<Vec<_>>(), "scripts_enc": scripts_v.iter().map(|s| s.iter().map(|c| c.enc()).collect::<Vec<_>>()).collect::<Vec<_>>(), "schedule": choices, "deadlock": r.deadlock, "panics": r.panics, "got": r.results, "expected": expected}),
                    });
                }
                ok
            };
            let remaining = (layer_deadline - ctx.elapsed()).max(1.0);
            let share = remaining / (total_cfgs - done_cfgs).max(1.0);
            done_cfgs += 1.0;
            let deadline = std::time::Instant::now() + std::time::Duration::from_secs_f64(share);
            let (out, complete) = explore_schedules(bound, cap, Some(deadline), &mut mk, &mut check);
            ctx.count("layer2_schedules", out.schedules);
            ctx.count("layer2_schedules_with_preemption", out.with_preemption);
            ctx.count_max("layer2_max_scheduling_points", out.max_points as u64);
            ctx.states.fetch_add(out.schedules, Ordering::Relaxed);
            ctx.transitions.fetch_add(out.schedules * out.max_points as u64, Ordering::Relaxed);
            ctx.validated.fetch_add(out.schedules, Ordering::Relaxed);
            if complete {
                ctx.count("layer2_configs_fully_explored", 1);
            } else if bad.is_none() {
                ctx.count("layer2_configs_schedule_cap_hit", 1);
            }
            if let Some(v) = bad {
                ctx.violation(v);
                return;
            }
            // determinism: replaying the first schedule gives identical observations
            if let Some((choices, res)) = first_trace {
                let r2 = run_schedule(mk(), &choices);
                let c2: Vec<usize> = r2.trace.iter().map(|c| c.chosen).collect();
                if r2.results != res || c2 != choices {
                    ctx.machinery_error(format!("schedule replay is not deterministic for {} cfg{}", g.name, ci));
                }
            }
        }
    }
}

fn layer3(ctx: &Ctx) {
    // free-running threads on clones sharing one lexer: results must equal the sequential ones
    let rounds = ctx.tier.pick(3, 12);
    for g in grammars().into_iter() {
        let f = Factory::new(&g.vocab, &Slices::Default).unwrap();
        let hs = histories(&f, &g.g, 2);
        let nv = f.n_vocab as u32;
        let script = vec![Call::Mask, Call::ValidateAll, Call::Mask, Call::Accepting];
        let expected: Vec<Vec<String>> = hs.iter().map(|h| private_obs(&f, &g.g, h, &script)).collect();
        for _ in 0..rounds {
            let root = f.matcher(&g.g);
            let clones: Vec<Matcher> = hs.iter().take(16).map(|h| { let mut m = root.clone(); let _ = m.consume_tokens(h); m }).collect();
            let handles: Vec<_> = clones.into_iter().map(|mut m| { let s = script.clone(); std::thread::spawn(move || s.iter().map(|c| obs_call(&mut m, c, nv)).collect::<Vec<String>>()) }).collect();
            for (i, h) in handles.into_iter().enumerate() {
                let got = h.join().unwrap_or_default();
                ctx.count("layer3_free_running_threads_sampled", 1);
                if got != expected[i] {
                    ctx.violation(Violation {
                        check: "free_running_threads".into(),
                        class: "clone-interference".into(),
                        signature: format!("{}|free|{:?}", g.name, hs[i]),
                        detail: json!({"kind": "clones", "grammar": g.g.to_json(), "vocab": g.vocab.to_json(), "history": hs[i], "got": got, "expected": expected[i], "note": "free-running OS threads (sampled schedule)"}),
                    });
                    return;
                }
            }
        }
    }
}

pub fn run(ctx: &Ctx) -> Coverage {
    layer1(ctx);
    ctx.note(format!("layer 1 done at {:.1}s", ctx.elapsed()));
    if !ctx.has_violations() {
        layer1c(ctx);
        ctx.note(format!("layer 1c done at {:.1}s", ctx.elapsed()));
    }
    if !ctx.has_violations() {
        layer2(ctx);
        ctx.note(format!("layer 2 done at {:.1}s", ctx.elapsed()));
    }
    if !ctx.has_violations() {
        layer3(ctx);
    }
    ctx.sample(json!({"layer1": "engines A (history [a]) and B (history [b], shared lexer): scripts [Mask, Commit] x [ValidateAll, Mask], interleaving 0,1,1,0", "layer2": "two threads, schedule = choice index per scheduling point (lock / unlock / start)"}));
    if ctx.get_count("layer1_interleaved_executions") == 0 || (ctx.get_count("layer2_schedules_with_preemption") == 0 && !ctx.has_violations()) {
        ctx.machinery_error("vacuous run: no interleaving executed or no schedule with a pre-emption");
    }
    Coverage::StateGraph {
        rule: "layer 1: for 7 grammars (lazy lexemes with two routes into an accepting state, shared lexemes, %ignore, & / ~, JSON), every pair of start histories (depth <= 2/3), every pair of legal call scripts of length 2 (thorough: 3) over {mask, validate-all, ff-bytes, commit, rollback}, every interleaving of the two scripts, on clones sharing one lexer (and deep clones), each execution starting from a freshly built root; observations must equal those of a private fresh engine running the script alone. layer 1c: the same through the sampling-loop interface: two Constraints (shallow clone, and one built on the parser's deep_clone) at every pair of histories, scripts (mask, commit t, mask) for <= 3 picks of t each, all 20 interleavings. layer 2: real threads under a controlled scheduler whose scheduling points are every lock/unlock of the instrumented mutexes and thread start; all schedules with <= 2 (thorough: 3) pre-emptions, executions run to completion, first schedule replayed to assert determinism. layer 3 (sampled, not deciding): 16 free-running threads per grammar".into(),
    }
}
