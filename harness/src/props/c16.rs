//! C16 — vocabulary handling (trie, token sets, tokenizer adapters) matches a naive model.
//! (a) every small vocabulary x every small partial DFA x every start prefix: trie vs per-token
//!     test; (b) SimpleVob operation sequences vs BTreeSet; (c) tokenizer descriptions built in
//!     memory: token bytes vs independent decoding, tokenise-then-concatenate round trip.
use crate::common::*;
use rayon::prelude::*;
use serde_json::{json, Value};
use std::collections::BTreeSet;
use std::sync::atomic::{AtomicU64, Ordering};
use toktrie::{Recognizer, SimpleVob, TokRxInfo, TokTrie, TokenizerEnv};

// ---------------------------------------------------------------------------------------
// (a) trie

/// partial DFA over bytes {a, b}: trans[state][sym] = next or 255
#[derive(Clone, Debug)]
struct Dfa {
    trans: Vec<[u8; 2]>,
}

struct DfaRec<'a> {
    d: &'a Dfa,
    stack: Vec<u8>,
}

fn sym(b: u8) -> Option<usize> {
    match b {
        b'a' => Some(0),
        b'b' => Some(1),
        _ => None,
    }
}

impl<'a> Recognizer for DfaRec<'a> {
    fn pop_bytes(&mut self, num: usize) {
        let n = self.stack.len() - num;
        self.stack.truncate(n);
    }
    fn collapse(&mut self) {
        let t = *self.stack.last().unwrap();
        self.stack = vec![t];
    }
    fn trie_finished(&mut self) {
        self.stack.truncate(1);
    }
    fn try_push_byte(&mut self, byte: u8) -> bool {
        let Some(s) = sym(byte) else { return false };
        let cur = *self.stack.last().unwrap();
        let n = self.d.trans[cur as usize][s];
        if n == 255 {
            false
        } else {
            self.stack.push(n);
            true
        }
    }
}

impl Dfa {
    fn accepts_from(&self, mut q: u8, bytes: &[u8]) -> bool {
        for b in bytes {
            let Some(s) = sym(*b) else { return false };
            let n = self.trans[q as usize][s];
            if n == 255 {
                return false;
            }
            q = n;
        }
        true
    }
}

fn all_dfas(n_states: usize) -> Vec<Dfa> {
    // each of the 2*n transitions is one of n states or missing
    let slots = 2 * n_states;
    let base = n_states + 1;
    let total = base.pow(slots as u32);
    let mut out = vec![];
    for code in 0..total {
        let mut c = code;
        let mut trans = vec![[255u8; 2]; n_states];
        for s in 0..slots {
            let v = c % base;
            c /= base;
            trans[s / 2][s % 2] = if v == n_states { 255 } else { v as u8 };
        }
        out.push(Dfa { trans });
    }
    out
}

fn strings_upto(alpha: &[u8], maxlen: usize) -> Vec<Vec<u8>> {
    let mut out = vec![vec![]];
    let mut cur: Vec<Vec<u8>> = vec![vec![]];
    for _ in 0..maxlen {
        let mut next = vec![];
        for s in cur.iter() {
            for a in alpha {
                let mut t = s.clone();
                t.push(*a);
                next.push(t);
            }
        }
        out.extend(next.iter().cloned());
        cur = next;
    }
    out
}

fn mk_trie(words: &[Vec<u8>]) -> TokTrie {
    let info = TokRxInfo { vocab_size: words.len() as u32, tok_eos: 0, tok_bos: None, tok_pad: None, tok_unk: None, tok_end_of_turn: None };
    TokTrie::from(&info, words)
}

fn naive_bias(words: &[Vec<u8>], filter: Option<&[bool]>, d: &Dfa, start: &[u8]) -> Vec<u32> {
    let mut out = vec![];
    for (i, w) in words.iter().enumerate() {
        if w.is_empty() {
            continue;
        }
        if let Some(f) = filter {
            if !f[i] {
                continue;
            }
        }
        let ok = if w.len() <= start.len() { start.starts_with(w) } else { w.starts_with(start) && d.accepts_from(0, &w[start.len()..]) };
        if ok {
            out.push(i as u32);
        }
    }
    out
}

struct TrieStats {
    walks: u64,
    vocabs: u64,
    outcome: u64,
}

fn check_vocab(ctx: &Ctx, words: &[Vec<u8>], dfas: &[Dfa], starts: &[Vec<u8>], st: &mut TrieStats) -> Result<(), Violation> {
    let viol = |check: &str, what: Value| Violation {
        check: check.to_string(),
        class: "trie-vs-naive-model".into(),
        signature: format!("{}|{:?}|{}", check, words.iter().map(|w| show(w)).collect::<Vec<_>>(), what),
        detail: json!({"kind": "trie", "words": words.iter().map(|w| show(w)).collect::<Vec<_>>(), "what": what}),
    };
    let trie = guarded(|| mk_trie(words)).map_err(|e| viol("construction_panic", json!({"panic": e})))?;
    st.vocabs += 1;
    // token <-> bytes
    for (i, w) in words.iter().enumerate() {
        if trie.token(i as u32) != w.as_slice() || trie.token_len(i as u32) != w.len().max(if w.is_empty() { 0 } else { w.len() }) {
            if trie.token(i as u32) != w.as_slice() {
                return Err(viol("token_bytes", json!({"id": i, "got": show(trie.token(i as u32))})));
            }
        }
        if !w.is_empty() {
            match trie.token_id(w) {
                Some(t) if words[t as usize] == *w => {}
                other => return Err(viol("token_id", json!({"bytes": show(w), "got": other}))),
            }
        }
    }
    for s in strings_upto(b"ab", 3) {
        if s.is_empty() {
            continue;
        }
        let present = words.iter().any(|w| *w == s);
        if trie.token_id(&s).is_some() != present {
            return Err(viol("token_id_presence", json!({"bytes": show(&s), "present": present})));
        }
        // greedy tokenisation of covered text decodes back to it
        let toks = trie.greedy_tokenize(&s);
        let dec = trie.decode_raw(&toks);
        let covered = s.iter().all(|b| words.iter().any(|w| w.len() == 1 && w[0] == *b));
        if covered && dec != s {
            return Err(viol("greedy_roundtrip", json!({"text": show(&s), "tokens": toks, "decoded": show(&dec)})));
        }
        let exp_ext = words.iter().any(|w| w.len() > s.len() && w.starts_with(&s));
        if trie.has_extensions(&s) != exp_ext {
            return Err(viol("has_extensions", json!({"bytes": show(&s), "expected": exp_ext})));
        }
    }
    // navigation API against scans of the word list (ids are compared through their bytes: with
    // duplicate entries any of the equal tokens is a right answer)
    let bytes_of = |ids: &[u32]| -> std::collections::BTreeSet<Vec<u8>> { ids.iter().map(|t| trie.token(*t).to_vec()).collect() };
    for s in strings_upto(b"ab", 4) {
        if s.is_empty() {
            continue;
        }
        st.walks += 1;
        let at = guarded(|| trie.token_id_at_bytes(&s)).map_err(|e| viol("token_id_at_bytes_panic", json!({"panic": e})))?;
        let present = words.iter().any(|w| *w == s);
        if at.is_some() != present || at.map_or(false, |t| trie.token(t) != s.as_slice()) {
            return Err(viol("token_id_at_bytes", json!({"bytes": show(&s), "got": at, "present": present})));
        }
        let (ptok, plen) = guarded(|| trie.prefix_token_id(&s)).map_err(|e| viol("prefix_token_id_panic", json!({"panic": e})))?;
        let exp_len = (1..=s.len()).rev().find(|l| words.iter().any(|w| w.as_slice() == &s[..*l])).unwrap_or(0);
        if plen != exp_len || (plen > 0 && trie.token(ptok) != &s[..plen]) {
            return Err(viol("prefix_token_id", json!({"bytes": show(&s), "got": [ptok as usize, plen], "expected_len": exp_len})));
        }
        let pref = guarded(|| trie.all_prefixes(&s)).map_err(|e| viol("all_prefixes_panic", json!({"panic": e})))?;
        let exp_pref: std::collections::BTreeSet<Vec<u8>> = words.iter().filter(|w| !w.is_empty() && s.starts_with(w)).cloned().collect();
        if bytes_of(&pref) != exp_pref {
            return Err(viol("all_prefixes", json!({"bytes": show(&s), "got": pref, "expected": exp_pref.iter().map(|w| show(w)).collect::<Vec<_>>()})));
        }
        let sub = guarded(|| trie.all_subtokens(&s)).map_err(|e| viol("all_subtokens_panic", json!({"panic": e})))?;
        let exp_sub: std::collections::BTreeSet<Vec<u8>> = words.iter().filter(|w| !w.is_empty() && s.windows(w.len()).any(|x| x == w.as_slice())).cloned().collect();
        if bytes_of(&sub) != exp_sub {
            return Err(viol("all_subtokens", json!({"bytes": show(&s), "got": sub, "expected": exp_sub.iter().map(|w| show(w)).collect::<Vec<_>>()})));
        }
    }
    {
        let sorted = guarded(|| trie.sorted_tokens()).map_err(|e| viol("sorted_tokens_panic", json!({"panic": e})))?;
        let got: std::collections::BTreeSet<Vec<u8>> = sorted.iter().map(|(_, b)| b.clone()).collect();
        let exp: std::collections::BTreeSet<Vec<u8>> = words.iter().filter(|w| !w.is_empty()).cloned().collect();
        if got != exp || sorted.iter().any(|(t, b)| trie.token(*t) != b.as_slice()) {
            return Err(viol("sorted_tokens", json!({"got": sorted.iter().map(|(t, b)| (*t, show(b))).collect::<Vec<_>>()})));
        }
        let exp_special: std::collections::BTreeSet<u32> = (0..words.len() as u32).filter(|t| words[*t as usize].first() == Some(&0xFF)).collect();
        // (get_special_tokens requires at least one token under the marker byte)
        let got_special: std::collections::BTreeSet<Vec<u8>> = if exp_special.is_empty() { Default::default() } else { guarded(|| trie.get_special_tokens()).map_err(|e| viol("get_special_tokens_panic", json!({"panic": e})))?.iter().map(|t| trie.token(*t).to_vec()).collect() };
        let exp_special_b: std::collections::BTreeSet<Vec<u8>> = exp_special.iter().map(|t| words[*t as usize].clone()).filter(|w| w.len() > 1).collect();
        if got_special != exp_special_b {
            return Err(viol("get_special_tokens", json!({"got": got_special.iter().map(|w| show(w)).collect::<Vec<_>>()})));
        }
        // singleton / eos sets stay below the vocabulary size
        for t in 0..words.len() as u32 {
            let sset = trie.singleton_token_set(t);
            if sset.iter().collect::<Vec<u32>>() != vec![t] {
                return Err(viol("singleton_token_set", json!({"token": t})));
            }
        }
        if trie.eos_token_set().iter().any(|t| t as usize >= words.len()) {
            return Err(viol("eos_token_set_above_vocab", json!({})));
        }
        // changing the EOS token changes nothing else
        if !words.is_empty() {
            let t2 = guarded(|| trie.with_eos_token(0)).map_err(|e| viol("with_eos_token_panic", json!({"panic": e})))?;
            if t2.eos_token() != 0 || (0..words.len() as u32).any(|t| t2.token(t) != trie.token(t)) || t2.vocab_size() != trie.vocab_size() {
                return Err(viol("with_eos_token", json!({})));
            }
        }
    }
    // filters: every subset when <= 3 words, else a few
    let n = words.len();
    let mut filters: Vec<Option<Vec<bool>>> = vec![None];
    for m in 0..(1u32 << n) {
        if n <= 3 || m % 5 == 1 {
            filters.push(Some((0..n).map(|i| m & (1 << i) != 0).collect()));
        }
    }
    for f in filters.iter() {
        let t2;
        let tr = match f {
            None => &trie,
            Some(fl) => {
                let mut v = trie.alloc_token_set();
                for (i, b) in fl.iter().enumerate() {
                    if *b {
                        v.allow_token(i as u32);
                    }
                }
                t2 = guarded(|| trie.filter(&v)).map_err(|e| viol("filter_panic", json!({"panic": e})))?;
                &t2
            }
        };
        for d in dfas {
            for start in starts {
                let mut rec = DfaRec { d, stack: vec![0] };
                let mut set = tr.alloc_token_set();
                tr.add_bias(&mut rec, &mut set, start);
                st.walks += 1;
                let got: Vec<u32> = set.iter().collect();
                let exp = naive_bias(words, f.as_deref(), d, start);
                st.outcome ^= fnv(format!("{:?}", got).as_bytes()).rotate_left((st.walks % 61) as u32);
                if got != exp {
                    return Err(viol("add_bias", json!({"dfa": format!("{:?}", d.trans), "start": show(start), "filter": f, "got": got, "expected": exp})));
                }
                if rec.stack.len() != 1 {
                    return Err(viol("recognizer_stack_not_restored", json!({"dfa": format!("{:?}", d.trans), "start": show(start), "depth": rec.stack.len()})));
                }
                if got.iter().any(|t| *t as usize >= n) {
                    return Err(viol("bit_above_vocab", json!({"got": got})));
                }
                let mut rec2 = DfaRec { d, stack: vec![0] };
                let hv = tr.has_valid_extensions(&mut rec2, start);
                let exp_hv = words.iter().enumerate().any(|(i, w)| f.as_ref().map_or(true, |fl| fl[i]) && w.len() > start.len() && w.starts_with(start) && d.accepts_from(0, &w[start.len()..]));
                if hv != exp_hv {
                    return Err(viol("has_valid_extensions", json!({"dfa": format!("{:?}", d.trans), "start": show(start), "filter": f, "got": hv, "expected": exp_hv})));
                }
            }
        }
    }
    let _ = ctx;
    Ok(())
}

fn run_trie(ctx: &Ctx) {
    let strs = strings_upto(b"ab", 3); // 15 strings incl. empty
    let k = ctx.tier.pick(3, 4);
    let dfas: Vec<Dfa> = (1..=ctx.tier.pick(2, 3)).flat_map(all_dfas).collect();
    let starts = strings_upto(b"ab", 2);
    ctx.note(format!("trie: vocabularies of <= {} entries over {} strings, {} DFAs, {} start prefixes", k, strs.len(), dfas.len(), starts.len()));
    // enumerate vocabularies as index tuples; parallel over the first index
    let n = strs.len();
    let walks = AtomicU64::new(0);
    let vocabs = AtomicU64::new(0);
    let mut tuples: Vec<Vec<usize>> = vec![];
    for len in 1..=k {
        let mut idx = vec![0usize; len];
        loop {
            tuples.push(idx.clone());
            let mut p = len;
            let mut done = false;
            loop {
                if p == 0 {
                    done = true;
                    break;
                }
                p -= 1;
                idx[p] += 1;
                if idx[p] < n {
                    break;
                }
                idx[p] = 0;
            }
            if done {
                break;
            }
        }
    }
    // the thorough tier uses the full DFA set only for vocabularies of <= 3 entries
    tuples.par_iter().for_each(|t| {
        if ctx.elapsed() > ctx.budget_s * 0.6 || ctx.has_violations() {
            ctx.cap_hit.store(true, Ordering::Relaxed);
            ctx.count("trie_vocabularies_skipped", 1);
            return;
        }
        let words: Vec<Vec<u8>> = t.iter().map(|i| strs[*i].clone()).collect();
        let ds: &[Dfa] = if t.len() >= 4 { &dfas[..dfas.len().min(85)] } else { &dfas };
        let mut st = TrieStats { walks: 0, vocabs: 0, outcome: 0 };
        if let Err(v) = check_vocab(ctx, &words, ds, &starts, &mut st) {
            ctx.violation(v);
        }
        ctx.outcome(st.outcome);
        walks.fetch_add(st.walks, Ordering::Relaxed);
        vocabs.fetch_add(st.vocabs, Ordering::Relaxed);
    });
    // stress shapes with an own growable recognizer
    let mut shapes: Vec<Vec<Vec<u8>>> = vec![];
    let mut chain = vec![];
    for i in 1..=300 {
        chain.push(vec![b'a'; i]);
    }
    shapes.push(chain);
    shapes.push((0..=254u8).map(|b| vec![b]).chain((0..=254u8).map(|b| vec![b'a', b])).collect());
    shapes.push(vec![vec![b'a'; 1024], vec![b'a'], vec![b'b'; 700], b"ab".to_vec()]);
    shapes.push(vec![b"\xFF<a>".to_vec(), b"\xFF".to_vec(), b"a".to_vec(), b"\xFFab".to_vec(), b"ab".to_vec()]);
    let any = Dfa { trans: vec![[0, 0]] };
    let only_a = Dfa { trans: vec![[0, 255]] };
    for words in shapes {
        let r = guarded(|| {
            let trie = mk_trie(&words);
            for d in [&any, &only_a] {
                for start in [&b""[..], b"a", b"aa"] {
                    let mut rec = DfaRec { d, stack: vec![0] };
                    let mut set = trie.alloc_token_set();
                    trie.add_bias(&mut rec, &mut set, start);
                    let got: Vec<u32> = set.iter().collect();
                    let exp = naive_bias(&words, None, d, start);
                    if got != exp {
                        return Err(format!("stress shape: add_bias differs for start {:?}: got {} tokens, expected {}", show(start), got.len(), exp.len()));
                    }
                }
            }
            for (i, w) in words.iter().enumerate() {
                if trie.token(i as u32) != w.as_slice() {
                    return Err(format!("stress shape: token {} bytes differ", i));
                }
            }
            Ok(())
        });
        ctx.count("trie_stress_shapes", 1);
        match r {
            Ok(Ok(())) => {}
            Ok(Err(e)) => ctx.violation(Violation { check: "stress".into(), class: "trie-vs-naive-model".into(), signature: e.clone(), detail: json!({"kind": "trie", "what": e}) }),
            Err(p) => ctx.violation(Violation { check: "stress_panic".into(), class: "trie-vs-naive-model".into(), signature: p.clone(), detail: json!({"kind": "trie", "panic": p}) }),
        }
    }
    ctx.count("trie_walks", walks.load(Ordering::Relaxed));
    ctx.count("trie_vocabularies", vocabs.load(Ordering::Relaxed));
    ctx.states.fetch_add(vocabs.load(Ordering::Relaxed), Ordering::Relaxed);
    ctx.transitions.fetch_add(walks.load(Ordering::Relaxed), Ordering::Relaxed);
    ctx.validated.fetch_add(walks.load(Ordering::Relaxed), Ordering::Relaxed);
}

// ---------------------------------------------------------------------------------------
// (b) SimpleVob

#[derive(Clone, Debug)]
enum VOp {
    Allow(u32),
    Disallow(u32),
    Range(u32, u32),
    SetAll(bool),
    Negate,
    Or(usize),
    And(usize),
    Sub(usize),
    OrMinus(usize, usize),
    Trim,
    Resize(usize),
}

#[derive(Clone, Debug, PartialEq)]
struct Model {
    size: usize,
    set: BTreeSet<u32>,
    /// spare capacity in bits beyond `size` (as TokTrie::alloc_token_set allocates): 0 = none
    spare: usize,
}

fn others(size: usize) -> Vec<BTreeSet<u32>> {
    let all: BTreeSet<u32> = (0..size as u32).collect();
    let alt: BTreeSet<u32> = (0..size as u32).filter(|x| x % 2 == 1).collect();
    let last: BTreeSet<u32> = if size > 0 { [size as u32 - 1].into_iter().collect() } else { BTreeSet::new() };
    vec![BTreeSet::new(), all, alt, last]
}

fn vob_of(size: usize, spare: usize, s: &BTreeSet<u32>) -> SimpleVob {
    let mut v = if spare == 0 { SimpleVob::alloc(size) } else { SimpleVob::alloc_with_capacity(size, size + spare) };
    for t in s {
        v.allow_token(*t);
    }
    v
}

fn apply(op: &VOp, v: &mut SimpleVob, m: &mut Model) -> bool {
    // returns false when the op's precondition does not hold (skipped)
    let size = m.size;
    match op {
        VOp::Allow(t) => {
            if *t as usize >= size {
                return false;
            }
            v.allow_token(*t);
            m.set.insert(*t);
        }
        VOp::Disallow(t) => {
            if *t as usize >= size {
                return false;
            }
            v.disallow_token(*t);
            m.set.remove(t);
        }
        VOp::Range(a, b) => {
            if *b as usize >= size || a > b {
                return false;
            }
            v.allow_range(*a..=*b);
            m.set.extend(*a..=*b);
        }
        VOp::SetAll(b) => {
            v.set_all(*b);
            m.set = if *b { (0..size as u32).collect() } else { BTreeSet::new() };
        }
        VOp::Negate => {
            *v = v.negated();
            m.set = (0..size as u32).filter(|x| !m.set.contains(x)).collect();
        }
        VOp::Or(k) => {
            let o = &others(size)[*k];
            v.or(&vob_of(size, m.spare, o));
            m.set.extend(o.iter().copied());
        }
        VOp::And(k) => {
            let o = &others(size)[*k];
            v.and(&vob_of(size, m.spare, o));
            m.set = m.set.intersection(o).copied().collect();
        }
        VOp::Sub(k) => {
            let o = &others(size)[*k];
            v.sub(&vob_of(size, m.spare, o));
            m.set = m.set.difference(o).copied().collect();
        }
        VOp::OrMinus(k1, k2) => {
            let os = others(size);
            v.or_minus(&vob_of(size, m.spare, &os[*k1]), &vob_of(size, m.spare, &os[*k2]));
            m.set.extend(os[*k1].difference(&os[*k2]).copied());
        }
        VOp::Trim => {
            if m.spare > 0 {
                return false; // trimming / resizing a set with spare capacity is not modelled
            }
            v.trim_trailing_zeros();
            let words_needed = m.set.iter().max().map_or(0, |x| *x as usize / 32 + 1);
            if words_needed < size.div_ceil(32) {
                m.size = words_needed * 32;
            }
        }
        VOp::Resize(s) => {
            if m.spare > 0 {
                return false;
            }
            if s.div_ceil(32) < size.div_ceil(32) || *s < size {
                return false;
            }
            v.resize(*s);
            m.size = *s;
        }
    }
    true
}

fn observe_vob(v: &SimpleVob, m: &Model) -> Result<(), String> {
    if v.len() != m.size {
        return Err(format!("len {} != model size {}", v.len(), m.size));
    }
    let exp: Vec<u32> = m.set.iter().copied().collect();
    let it: Vec<u32> = v.iter().collect();
    if it != exp {
        return Err(format!("iter {:?} != {:?}", it, exp));
    }
    if v.to_list() != exp {
        return Err(format!("to_list {:?} != {:?}", v.to_list(), exp));
    }
    let mut uns = vec![];
    v.iter_unset_entries(|i| uns.push(i as u32));
    let exp_uns: Vec<u32> = (0..m.size as u32).filter(|x| !m.set.contains(x)).collect();
    if uns != exp_uns {
        return Err(format!("iter_unset_entries {:?} != {:?}", uns, exp_uns));
    }
    let mut ents = vec![];
    v.iter_entries(|b, i| ents.push((b, i)));
    if ents.len() != m.size || ents.iter().any(|(b, i)| *b != m.set.contains(&(*i as u32))) {
        return Err("iter_entries differs".into());
    }
    if v.num_set() != exp.len() {
        return Err(format!("num_set {} != {}", v.num_set(), exp.len()));
    }
    if v.is_zero() != exp.is_empty() {
        return Err("is_zero differs".into());
    }
    if v.first_bit_set() != exp.first().map(|x| *x as usize) {
        return Err(format!("first_bit_set {:?}", v.first_bit_set()));
    }
    let bs: String = (0..m.size).map(|i| if m.set.contains(&(i as u32)) { '1' } else { '0' }).collect();
    if v.to_bin_string() != bs {
        return Err("to_bin_string differs".into());
    }
    for (k, o) in others(m.size).iter().enumerate() {
        let ov = vob_of(m.size, m.spare, o);
        let inter: Vec<u32> = m.set.intersection(o).copied().collect();
        if v.and_is_zero(&ov) != inter.is_empty() {
            return Err(format!("and_is_zero with other {k} differs"));
        }
        if v.first_bit_set_here_and_in(&ov) != inter.first().map(|x| *x as usize) {
            return Err(format!("first_bit_set_here_and_in with other {k} differs"));
        }
    }
    // no bit at or above the size in the backing words
    for (wi, w) in v.as_slice().iter().enumerate() {
        for b in 0..32 {
            if w & (1 << b) != 0 && wi * 32 + b >= m.size {
                return Err(format!("bit {} set at or above size {}", wi * 32 + b, m.size));
            }
        }
    }
    Ok(())
}

fn vob_ops(size: usize, full: bool) -> Vec<VOp> {
    let mut pos: BTreeSet<u32> = BTreeSet::new();
    for p in [0u32, 1, 30, 31, 32, 33, 62, 63, 64, 65, 95, 96] {
        if (p as usize) < size {
            pos.insert(p);
        }
    }
    if size > 0 {
        pos.insert(size as u32 - 1);
    }
    let pos: Vec<u32> = pos.into_iter().collect();
    let mut ops = vec![VOp::SetAll(true), VOp::SetAll(false), VOp::Negate, VOp::Trim];
    for p in pos.iter() {
        ops.push(VOp::Allow(*p));
        if full {
            ops.push(VOp::Disallow(*p));
        }
    }
    for (i, a) in pos.iter().enumerate() {
        for b in pos.iter().skip(i) {
            if full || (b - a) % 2 == 1 || a == b {
                ops.push(VOp::Range(*a, *b));
            }
        }
    }
    for k in 0..4 {
        ops.push(VOp::Or(k));
        ops.push(VOp::And(k));
        ops.push(VOp::Sub(k));
    }
    for k1 in 1..4 {
        for k2 in 0..4 {
            ops.push(VOp::OrMinus(k1, k2));
        }
    }
    for s in [size, size + 1, size.div_ceil(32) * 32 + 1, 100] {
        ops.push(VOp::Resize(s));
    }
    ops
}

fn run_vob(ctx: &Ctx) {
    let sizes = [0usize, 1, 31, 32, 33, 63, 64, 65, 100];
    let evals = AtomicU64::new(0);
    // jobs: (size, first op); prefixes are shared by cloning (vob, model)
    // spare: 0 = SimpleVob::alloc(size); 1 / 33 = alloc_with_capacity(size, size + spare), the shape
    // TokTrie::alloc_token_set() gives every engine mask (one spare bit for the fake token)
    let jobs: Vec<(usize, usize, VOp)> = sizes.iter().flat_map(|s| [0usize, 1, 33].into_iter().flat_map(move |sp| vob_ops(*s, true).into_iter().map(move |o| (*s, sp, o)))).collect();
    jobs.par_iter().for_each(|(size, spare, a)| {
        let spare = *spare;
        if ctx.has_violations() {
            return;
        }
        let size = *size;
        let ops_rest = vob_ops(size, !ctx.quick());
        let fail = |seq: String, e: String| {
            ctx.violation(Violation { check: "simplevob".into(), class: "token-set-vs-btreeset".into(), signature: format!("{seq}: {e}"), detail: json!({"kind": "simplevob", "size": size, "spare_capacity": spare, "ops": seq, "what": e}) });
        };
        let step = |op: &VOp, v: &SimpleVob, m: &Model| -> Result<Option<(SimpleVob, Model)>, String> {
            let mut v2 = v.clone();
            let mut m2 = m.clone();
            let ok = guarded(|| apply(op, &mut v2, &mut m2)).map_err(|p| format!("panic: {p}"))?;
            if !ok {
                return Ok(None);
            }
            observe_vob(&v2, &m2)?;
            Ok(Some((v2, m2)))
        };
        let v0 = if spare == 0 { SimpleVob::alloc(size) } else { SimpleVob::alloc_with_capacity(size, size + spare) };
        let m0 = Model { size, set: BTreeSet::new(), spare };
        let mut n = 0u64;
        let s1 = match step(a, &v0, &m0) {
            Ok(Some(x)) => x,
            Ok(None) => return,
            Err(e) => return fail(format!("{:?}", [a]), e),
        };
        n += 1;
        for b in ops_rest.iter() {
            let s2 = match step(b, &s1.0, &s1.1) {
                Ok(Some(x)) => x,
                Ok(None) => continue,
                Err(e) => return fail(format!("{:?}", [a, b]), e),
            };
            n += 1;
            for c in ops_rest.iter() {
                match step(c, &s2.0, &s2.1) {
                    Ok(Some(_)) => n += 1,
                    Ok(None) => {}
                    Err(e) => return fail(format!("{:?}", [a, b, c]), e),
                }
            }
        }
        evals.fetch_add(n, Ordering::Relaxed);
    });
    let n = evals.load(Ordering::Relaxed);
    ctx.count("simplevob_sequences", n);
    ctx.states.fetch_add(n, Ordering::Relaxed);
    ctx.transitions.fetch_add(n, Ordering::Relaxed);
    ctx.validated.fetch_add(n, Ordering::Relaxed);
}

// ---------------------------------------------------------------------------------------
// (c) tokenizer descriptions

/// independent GPT-2 bytes_to_unicode table
fn byte_to_unicode() -> Vec<char> {
    let mut bs: Vec<u32> = (b'!' as u32..=b'~' as u32).chain(0xA1..=0xAC).chain(0xAE..=0xFF).collect();
    let mut cs = bs.clone();
    let mut n = 0;
    for b in 0..256u32 {
        if !bs.contains(&b) {
            bs.push(b);
            cs.push(256 + n);
            n += 1;
        }
    }
    let mut table = vec![' '; 256];
    for (b, c) in bs.iter().zip(cs.iter()) {
        table[*b as usize] = char::from_u32(*c).unwrap();
    }
    table
}

fn texts_for_roundtrip() -> Vec<Vec<u8>> {
    strings_upto(&[b'a', b'b', b' ', 0xC3, 0xA9, 0x80], 4)
}

fn check_env_roundtrip(ctx: &Ctx, name: &str, env: &dyn TokenizerEnv, texts: &[Vec<u8>]) {
    let trie = env.tok_trie();
    for t in texts {
        if t.is_empty() {
            continue;
        }
        let r = guarded(|| env.tokenize_bytes(t));
        ctx.count("adapter_roundtrips", 1);
        match r {
            Ok(toks) => {
                let dec = trie.decode_raw(&toks);
                if dec != *t {
                    ctx.violation(Violation {
                        check: "tokenize_roundtrip".into(),
                        class: "adapter-roundtrip".into(),
                        signature: format!("{}|{}", name, show(t)),
                        detail: json!({"kind": "adapter", "adapter": name, "text": show(t), "tokens": toks, "decoded": show(&dec)}),
                    });
                    return;
                }
                if toks.iter().any(|x| trie.is_special_token(*x)) {
                    ctx.violation(Violation {
                        check: "text_tokenized_as_special".into(),
                        class: "adapter-roundtrip".into(),
                        signature: format!("{}|special|{}", name, show(t)),
                        detail: json!({"kind": "adapter", "adapter": name, "text": show(t), "tokens": toks}),
                    });
                    return;
                }
            }
            Err(p) => {
                ctx.violation(Violation {
                    check: "tokenize_panic".into(),
                    class: "adapter-roundtrip".into(),
                    signature: format!("{}|panic|{}", name, show(t)),
                    detail: json!({"kind": "adapter", "adapter": name, "text": show(t), "panic": p}),
                });
                return;
            }
        }
    }
}

fn run_adapters(ctx: &Ctx) {
    let b2u = byte_to_unicode();
    let enc = |bytes: &[u8]| -> String { bytes.iter().map(|b| b2u[*b as usize]).collect() };
    // ---- byte-level description: all 256 code points + merges + added tokens
    let mut vocab = serde_json::Map::new();
    let mut expected: Vec<Vec<u8>> = vec![];
    for b in 0..=255u8 {
        vocab.insert(enc(&[b]), json!(expected.len()));
        expected.push(vec![b]);
    }
    let multi: Vec<Vec<u8>> = vec![b"ab".to_vec(), b"a ".to_vec(), b" a".to_vec(), vec![0xC3, 0xA9], b"aba".to_vec(), vec![b'a', 0xC3], b"bb".to_vec(), b"  ".to_vec()];
    let mut merges: Vec<String> = vec![];
    for m in multi.iter() {
        vocab.insert(enc(m), json!(expected.len()));
        expected.push(m.clone());
        // a merge producing it from its first byte and the rest (valid because every proper
        // suffix/prefix used here is itself a token)
        let (l, r) = m.split_at(if m.len() == 3 { 2 } else { 1 });
        merges.push(format!("{} {}", enc(l), enc(r)));
    }
    let n_regular = expected.len();
    let added = json!([
        {"id": n_regular, "content": "<|endoftext|>", "single_word": false, "lstrip": false, "rstrip": false, "normalized": false, "special": true},
        {"id": n_regular + 1, "content": "<|tool|>", "single_word": false, "lstrip": false, "rstrip": false, "normalized": false, "special": true},
        {"id": n_regular + 2, "content": "plainadded", "single_word": false, "lstrip": false, "rstrip": false, "normalized": false, "special": false}
    ]);
    let bl = json!({
        "version": "1.0", "truncation": null, "padding": null,
        "added_tokens": added,
        "normalizer": null,
        "pre_tokenizer": {"type": "ByteLevel", "add_prefix_space": false, "trim_offsets": true, "use_regex": false},
        "post_processor": null,
        "decoder": {"type": "ByteLevel", "add_prefix_space": false, "trim_offsets": true, "use_regex": false},
        "model": {"type": "BPE", "dropout": null, "unk_token": null, "continuing_subword_prefix": "", "end_of_word_suffix": "", "fuse_unk": false, "byte_fallback": false,
                  "vocab": Value::Object(vocab.clone()), "merges": merges}
    });
    let mut exp_bl = expected.clone();
    exp_bl.push(b"\xFF<|endoftext|>".to_vec());
    exp_bl.push(b"\xFF<|tool|>".to_vec());
    exp_bl.push(b"plainadded".to_vec());
    let cmp_bytes = |name: &str, got: &[Vec<u8>], exp: &[Vec<u8>]| {
        ctx.count("adapter_token_tables", 1);
        for i in 0..exp.len() {
            if got.get(i) != Some(&exp[i]) {
                ctx.violation(Violation {
                    check: "token_bytes".into(),
                    class: "adapter-token-bytes".into(),
                    signature: format!("{}|{}", name, i),
                    detail: json!({"kind": "adapter", "adapter": name, "token": i, "got": got.get(i).map(|x| show(x)), "expected": show(&exp[i])}),
                });
                return;
            }
        }
    };
    match guarded(|| llguidance::token_bytes_from_tokenizer_json(&bl)) {
        Ok(Ok(tb)) => cmp_bytes("token_bytes_from_tokenizer_json/byte-level", &tb, &exp_bl),
        Ok(Err(e)) => ctx.machinery_error(format!("byte-level description refused by token_bytes_from_tokenizer_json: {e}")),
        Err(p) => ctx.violation(Violation { check: "adapter_panic".into(), class: "adapter-token-bytes".into(), signature: format!("panic|bl|{p}"), detail: json!({"kind": "adapter", "panic": p}) }),
    }
    let texts = texts_for_roundtrip();
    match guarded(|| toktrie_hf_tokenizers::ByteTokenizer::from_json_bytes(bl.to_string().as_bytes())) {
        Ok(Ok(bt)) => {
            cmp_bytes("hf ByteTokenizer/byte-level", &bt.token_bytes(), &exp_bl);
            match toktrie_hf_tokenizers::ByteTokenizerEnv::new(bt, Some(exp_bl.len() + 3)) {
                Ok(env) => {
                    // padded entries are placeholder specials
                    let trie = env.tok_trie();
                    for i in exp_bl.len()..exp_bl.len() + 3 {
                        if trie.token(i as u32).first() != Some(&0xFF) {
                            ctx.violation(Violation { check: "padding_not_special".into(), class: "adapter-token-bytes".into(), signature: format!("pad|{i}"), detail: json!({"kind": "adapter", "token": i, "bytes": show(trie.token(i as u32))}) });
                        }
                    }
                    check_env_roundtrip(ctx, "hf byte-level", &env, &texts);
                    // (TokenizerEnv::tokenize_bytes "may or may not interpret <|special_tokens|> as special":
                    // spelled-out special names are adapter policy for the HF adapter and not judged)
                }
                Err(e) => ctx.machinery_error(format!("ByteTokenizerEnv::new failed: {e}")),
            }
        }
        Ok(Err(e)) => ctx.machinery_error(format!("byte-level description refused by the HF adapter: {e}")),
        Err(p) => ctx.violation(Violation { check: "adapter_panic".into(), class: "adapter-token-bytes".into(), signature: format!("panic|hf-bl|{p}"), detail: json!({"kind": "adapter", "panic": p}) }),
    }
    // ---- byte-fallback description with <0xNN> tokens and a replaced space character
    let mut vocab = serde_json::Map::new();
    let mut exp_bf: Vec<Vec<u8>> = vec![];
    vocab.insert("<unk>".into(), json!(0));
    exp_bf.push(b"\xFF<unk>".to_vec());
    for b in 0..=255u8 {
        vocab.insert(format!("<0x{:02X}>", b), json!(exp_bf.len()));
        exp_bf.push(vec![b]);
    }
    for (name, bytes) in [("a", &b"a"[..]), ("b", b"b"), ("▁", b" "), ("▁a", b" a"), ("ab", b"ab"), ("é", "é".as_bytes()), ("a▁b", b"a b")] {
        vocab.insert(name.into(), json!(exp_bf.len()));
        exp_bf.push(bytes.to_vec());
    }
    let bf = json!({
        "version": "1.0", "truncation": null, "padding": null,
        "added_tokens": [{"id": 0, "content": "<unk>", "single_word": false, "lstrip": false, "rstrip": false, "normalized": false, "special": true}],
        "normalizer": {"type": "Replace", "pattern": {"String": " "}, "content": "▁"},
        "pre_tokenizer": null,
        "post_processor": null,
        "decoder": {"type": "Sequence", "decoders": [{"type": "Replace", "pattern": {"String": "▁"}, "content": " "}, {"type": "ByteFallback"}, {"type": "Fuse"}]},
        "model": {"type": "BPE", "dropout": null, "unk_token": "<unk>", "continuing_subword_prefix": null, "end_of_word_suffix": null, "fuse_unk": true, "byte_fallback": true,
                  "vocab": Value::Object(vocab), "merges": ["▁ a", "a b"]}
    });
    match guarded(|| llguidance::token_bytes_from_tokenizer_json(&bf)) {
        Ok(Ok(tb)) => cmp_bytes("token_bytes_from_tokenizer_json/byte-fallback", &tb, &exp_bf),
        Ok(Err(e)) => ctx.machinery_error(format!("byte-fallback description refused by token_bytes_from_tokenizer_json: {e}")),
        Err(p) => ctx.violation(Violation { check: "adapter_panic".into(), class: "adapter-token-bytes".into(), signature: format!("panic|bf|{p}"), detail: json!({"kind": "adapter", "panic": p}) }),
    }
    match guarded(|| toktrie_hf_tokenizers::ByteTokenizer::from_json_bytes(bf.to_string().as_bytes())) {
        Ok(Ok(bt)) => {
            cmp_bytes("hf ByteTokenizer/byte-fallback", &bt.token_bytes(), &exp_bf);
            if let Ok(env) = toktrie_hf_tokenizers::ByteTokenizerEnv::new(bt, None) {
                check_env_roundtrip(ctx, "hf byte-fallback", &env, &texts);
            }
        }
        Ok(Err(e)) => ctx.note(format!("byte-fallback description refused by the HF adapter (not judged): {e}")),
        Err(p) => ctx.violation(Violation { check: "adapter_panic".into(), class: "adapter-token-bytes".into(), signature: format!("panic|hf-bf|{p}"), detail: json!({"kind": "adapter", "panic": p}) }),
    }
    // ---- tiktoken rank tables with holes and n_vocab overrides
    let ranks = crate::tiktoken_data::cl100k_ranks(ctx.tier.pick(600, 3000));
    let pattern = "(?i:'s|'t|'re|'ve|'m|'ll|'d)|[^\\r\\n\\p{L}\\p{N}]?\\p{L}+|\\p{N}{1,3}| ?[^\\s\\p{L}\\p{N}]+[\\r\\n]*|\\s*[\\r\\n]+|\\s+(?!\\S)|\\s+";
    for (hole, ovr) in [(false, None), (true, None), (true, Some(ranks.len() + 40)), (false, Some(ranks.len() + 7))] {
        let n = ranks.len();
        let encoder: Vec<(Vec<u8>, u32)> = ranks.iter().enumerate().map(|(i, b)| (b.clone(), i as u32)).collect();
        let eos = if hole { n as u32 + 10 } else { n as u32 };
        let specials = vec![("<|endoftext|>".to_string(), eos), ("<|fim|>".to_string(), eos + 2)];
        let name = format!("tiktoken(hole={hole},override={ovr:?})");
        match guarded(|| toktrie_tiktoken::TikTokenBPE::new(encoder.clone(), specials.clone(), pattern, ovr, eos)) {
            Ok(Ok(tk)) => {
                let trie = tk.tok_trie();
                ctx.count("adapter_token_tables", 1);
                let total = trie.vocab_size();
                let exp_total = ovr.unwrap_or(eos as usize + 3).max(eos as usize + 3);
                if total != exp_total {
                    ctx.violation(Violation { check: "tiktoken_vocab_size".into(), class: "adapter-token-bytes".into(), signature: format!("{name}|size"), detail: json!({"kind": "adapter", "adapter": name, "got": total, "expected": exp_total}) });
                }
                for i in 0..total as u32 {
                    let got = trie.token(i).to_vec();
                    let exp: Vec<u8> = if (i as usize) < n {
                        ranks[i as usize].clone()
                    } else if i == eos {
                        b"\xFF<|endoftext|>".to_vec()
                    } else if i == eos + 2 {
                        b"\xFF<|fim|>".to_vec()
                    } else {
                        let mut v = format!(".<[{i}]>").into_bytes();
                        v[0] = 0xFF;
                        v
                    };
                    if got != exp {
                        ctx.violation(Violation { check: "token_bytes".into(), class: "adapter-token-bytes".into(), signature: format!("{name}|{i}"), detail: json!({"kind": "adapter", "adapter": name, "token": i, "got": show(&got), "expected": show(&exp)}) });
                        break;
                    }
                }
                if trie.eos_token() != eos {
                    ctx.violation(Violation { check: "tiktoken_eos".into(), class: "adapter-token-bytes".into(), signature: format!("{name}|eos"), detail: json!({"kind": "adapter", "adapter": name, "got": trie.eos_token(), "expected": eos}) });
                }
                check_env_roundtrip(ctx, &name, &tk, &texts);
                check_env_roundtrip(ctx, &format!("{name} spelled special"), &tk, &[b"<|fim|>".to_vec(), b"a<|endoftext|>b".to_vec()]);
            }
            Ok(Err(e)) => ctx.machinery_error(format!("{name}: constructor refused: {e}")),
            Err(p) => ctx.violation(Violation { check: "adapter_panic".into(), class: "adapter-token-bytes".into(), signature: format!("panic|{name}|{p}"), detail: json!({"kind": "adapter", "panic": p}) }),
        }
    }
    // an override smaller than the table must be refused with an error
    let encoder: Vec<(Vec<u8>, u32)> = ranks.iter().take(300).enumerate().map(|(i, b)| (b.clone(), i as u32)).collect();
    match guarded(|| toktrie_tiktoken::TikTokenBPE::new(encoder, vec![("<|endoftext|>".to_string(), 300)], pattern, Some(100), 300)) {
        Ok(Err(_)) => ctx.count("adapter_refusals_ok", 1),
        Ok(Ok(_)) => ctx.violation(Violation { check: "override_too_small_accepted".into(), class: "adapter-token-bytes".into(), signature: "tiktoken|small-override".into(), detail: json!({"kind": "adapter"}) }),
        Err(p) => ctx.violation(Violation { check: "adapter_panic".into(), class: "adapter-token-bytes".into(), signature: format!("panic|small-override|{p}"), detail: json!({"kind": "adapter", "panic": p}) }),
    }
}

pub fn run(ctx: &Ctx) -> Coverage {
    let t0 = ctx.elapsed();
    run_adapters(ctx);
    ctx.note(format!("adapters done at {:.1}s", ctx.elapsed() - t0));
    run_trie(ctx);
    ctx.note(format!("trie done at {:.1}s", ctx.elapsed() - t0));
    run_vob(ctx);
    ctx.note(format!("simplevob done at {:.1}s", ctx.elapsed() - t0));
    ctx.outcome(ctx.get_count("trie_walks"));
    ctx.outcome(ctx.get_count("simplevob_sequences") ^ 0x55);
    ctx.outcome(ctx.get_count("adapter_roundtrips") ^ 0xAA);
    ctx.sample(json!({"trie": "vocabulary [\"a\",\"ab\",\"\",\"ab\"] x DFA a->0 x start \"a\"", "simplevob": "size 33: Range(31,32), Negate, Trim", "adapter": "byte-level tokenizer.json with 256 code points + merges + added tokens"}));
    if ctx.get_count("trie_walks") == 0 || ctx.get_count("simplevob_sequences") == 0 || ctx.get_count("adapter_roundtrips") == 0 {
        ctx.machinery_error("vacuous run");
    }
    Coverage::StateGraph {
        rule: "(a) every vocabulary of <= 3 (thorough: 4) entries over the 15 strings of length <= 3 on {a,b} (duplicates, empty entries, prefixes), every filter subset, every partial DFA with <= 2 (thorough: 3) states over {a,b}, every start prefix of length <= 2: token/bytes round trip, token_id, token_id_at_bytes, prefix_token_id, all_prefixes, all_subtokens (every string of length <= 4), sorted_tokens, get_special_tokens, singleton/eos sets, with_eos_token, has_extensions, greedy round trip, add_bias and has_valid_extensions vs per-token test; plus stress shapes (300-byte chain, 255-way fan-out, 1024-byte token, marker tokens); (b) every SimpleVob operation sequence of length <= 3 over 11 operation kinds with word-boundary arguments on sizes {0,1,31,32,33,63,64,65,100} x spare capacity {0, 1, 33} bits (alloc vs alloc_with_capacity as in alloc_token_set), every observer compared with a BTreeSet model after every step; (c) byte-level and byte-fallback tokenizer.json descriptions and tiktoken rank tables built in memory: token bytes vs independent decoding, and tokenise/concatenate round trip for every byte string of length <= 4 over {a, b, space, C3, A9, 80}; states = vocabularies + op sequences, transitions = trie walks + set operations".into(),
    }
}
