//! C08 — numeric bound keywords admit exactly the numbers inside the bounds.
//! Bounded-exhaustive enumeration of (schema, literal) pairs against an exact decimal predicate.
use crate::common::*;
use crate::engine::*;
use crate::refs::decimal::Dec;
use crate::vocab;
use rayon::prelude::*;
use serde_json::{json, Value};
use std::collections::BTreeSet;
use std::sync::atomic::{AtomicU64, Ordering};

#[derive(Clone, Debug)]
pub struct NumSpec {
    pub integer: bool,
    /// (bound literal, exclusive)
    pub lo: Option<(String, bool)>,
    pub hi: Option<(String, bool)>,
    pub mult: Option<String>,
    /// 0: 2020-12 numeric exclusive keywords, 1: draft-4 boolean form, 2: multipleOf under allOf
    pub form: u8,
    /// a second bound of the *other* keyword on the same side (form 0 only): when `lo` is
    /// `minimum`, `lo2` is an `exclusiveMinimum` and vice versa; same for `hi2`
    pub lo2: Option<String>,
    pub hi2: Option<String>,
}

impl NumSpec {
    pub fn schema(&self) -> Value {
        let mut s = json!({"type": if self.integer { "integer" } else { "number" }});
        let numv = |t: &str| -> Value { serde_json::from_str(t).unwrap() };
        if let Some((b, ex)) = &self.lo {
            if *ex && self.form == 1 {
                s["minimum"] = numv(b);
                s["exclusiveMinimum"] = json!(true);
            } else if *ex {
                s["exclusiveMinimum"] = numv(b);
            } else {
                s["minimum"] = numv(b);
            }
        }
        if let Some((b, ex)) = &self.hi {
            if *ex && self.form == 1 {
                s["maximum"] = numv(b);
                s["exclusiveMaximum"] = json!(true);
            } else if *ex {
                s["exclusiveMaximum"] = numv(b);
            } else {
                s["maximum"] = numv(b);
            }
        }
        if let (Some(b2), Some((_, ex))) = (&self.lo2, &self.lo) {
            s[if *ex { "minimum" } else { "exclusiveMinimum" }] = numv(b2);
        }
        if let (Some(b2), Some((_, ex))) = (&self.hi2, &self.hi) {
            s[if *ex { "maximum" } else { "exclusiveMaximum" }] = numv(b2);
        }
        if let Some(m) = &self.mult {
            if self.form == 2 {
                return json!({"allOf": [s, {"multipleOf": numv(m)}]});
            }
            s["multipleOf"] = numv(m);
        }
        s
    }

    pub fn sat(&self, v: &Dec) -> bool {
        if self.integer && !v.is_integer() {
            return false;
        }
        if let Some((b, ex)) = &self.lo {
            let b = Dec::parse(b).unwrap();
            match v.cmp(&b) {
                std::cmp::Ordering::Less => return false,
                std::cmp::Ordering::Equal if *ex => return false,
                _ => {}
            }
        }
        if let Some((b, ex)) = &self.hi {
            let b = Dec::parse(b).unwrap();
            match v.cmp(&b) {
                std::cmp::Ordering::Greater => return false,
                std::cmp::Ordering::Equal if *ex => return false,
                _ => {}
            }
        }
        if let (Some(b2), Some((_, ex))) = (&self.lo2, &self.lo) {
            let b = Dec::parse(b2).unwrap();
            match v.cmp(&b) {
                std::cmp::Ordering::Less => return false,
                std::cmp::Ordering::Equal if !*ex => return false, // lo2 is the exclusive keyword
                _ => {}
            }
        }
        if let (Some(b2), Some((_, ex))) = (&self.hi2, &self.hi) {
            let b = Dec::parse(b2).unwrap();
            match v.cmp(&b) {
                std::cmp::Ordering::Greater => return false,
                std::cmp::Ordering::Equal if !*ex => return false,
                _ => {}
            }
        }
        if let Some(m) = &self.mult {
            let m = Dec::parse(m).unwrap();
            if v.is_multiple_of(&m) != Some(true) {
                return false;
            }
        }
        true
    }

    /// the tighter of the two lower (upper) bounds: (value, exclusive)
    fn eff_lo(&self) -> Option<(Dec, bool)> {
        let a = self.lo.as_ref().map(|(b, e)| (Dec::parse(b).unwrap(), *e));
        let b = match (&self.lo2, &self.lo) {
            (Some(b2), Some((_, ex))) => Some((Dec::parse(b2).unwrap(), !*ex)),
            _ => None,
        };
        match (a, b) {
            (Some(a), Some(b)) => Some(match a.0.cmp(&b.0) {
                std::cmp::Ordering::Greater => a,
                std::cmp::Ordering::Less => b,
                std::cmp::Ordering::Equal => (a.0, a.1 || b.1),
            }),
            (a, _) => a,
        }
    }
    fn eff_hi(&self) -> Option<(Dec, bool)> {
        let a = self.hi.as_ref().map(|(b, e)| (Dec::parse(b).unwrap(), *e));
        let b = match (&self.hi2, &self.hi) {
            (Some(b2), Some((_, ex))) => Some((Dec::parse(b2).unwrap(), !*ex)),
            _ => None,
        };
        match (a, b) {
            (Some(a), Some(b)) => Some(match a.0.cmp(&b.0) {
                std::cmp::Ordering::Less => a,
                std::cmp::Ordering::Greater => b,
                std::cmp::Ordering::Equal => (a.0, a.1 || b.1),
            }),
            (a, _) => a,
        }
    }

    /// does any value satisfy the schema? exact, by integer arithmetic at a common scale
    pub fn satisfiable(&self) -> bool {
        let lo = self.eff_lo();
        let hi = self.eff_hi();
        let mult = self.mult.as_ref().map(|m| Dec::parse(m).unwrap());
        let mut scale = 0u32;
        for d in [lo.map(|x| x.0), hi.map(|x| x.0), mult].iter().flatten() {
            scale = scale.max(d.scale);
        }
        let p = |d: &Dec| d.mant * 10i128.pow(scale - d.scale);
        let unit = 10i128.pow(scale);
        // step at this scale: values must be multiples of `step` (0 = any real)
        let mut step: i128 = 0;
        if let Some(m) = &mult {
            step = p(m).abs();
        }
        if self.integer {
            step = if step == 0 { unit } else { lcm(step, unit) };
        }
        match (lo, hi) {
            (Some((l, le)), Some((h, he))) => {
                let (l, h) = (p(&l), p(&h));
                if step == 0 {
                    return l < h || (l == h && !le && !he);
                }
                // smallest multiple of step >= l (or > l)
                let mut first = div_ceil(l, step) * step;
                if le && first == l {
                    first += step;
                }
                first < h || (first == h && !he)
            }
            _ => true,
        }
    }
}

fn gcd(a: i128, b: i128) -> i128 {
    if b == 0 {
        a.abs()
    } else {
        gcd(b, a % b)
    }
}
fn lcm(a: i128, b: i128) -> i128 {
    a / gcd(a, b) * b
}
fn div_ceil(a: i128, b: i128) -> i128 {
    let q = a / b;
    if a % b != 0 && (a > 0) == (b > 0) {
        q + 1
    } else {
        q
    }
}

/// literal grid for a spec: integers in the widened window and fractional spellings
pub fn literals(spec: &NumSpec, widen: i64) -> Vec<String> {
    let lo_i = spec.lo.as_ref().map(|(b, _)| Dec::parse(b).unwrap().to_f64().floor() as i64);
    let hi_i = spec.hi.as_ref().map(|(b, _)| Dec::parse(b).unwrap().to_f64().ceil() as i64);
    let (a, b) = match (lo_i, hi_i) {
        (Some(l), Some(h)) => (l.min(h) - widen, h.max(l) + widen),
        (Some(l), None) => (l - widen, l + 2 * widen + 12),
        (None, Some(h)) => (h - 2 * widen - 12, h + widen),
        (None, None) => (-widen - 5, widen + 5),
    };
    let mut set: BTreeSet<String> = BTreeSet::new();
    let fr1: Vec<String> = (0..10).map(|d| format!("{d}")).collect();
    let fr2 = ["00", "01", "05", "10", "25", "50", "75", "99"];
    let fr3 = ["000", "001", "125", "250", "500", "999"];
    let width = (b - a).min(4000);
    let dense = width <= 80;
    for i in a..=(a + width) {
        for neg_zero in [false, true] {
            let ip = if i == 0 && neg_zero { "-0".to_string() } else { i.to_string() };
            if i != 0 && neg_zero {
                continue;
            }
            if !(i == 0 && neg_zero) {
                set.insert(ip.clone());
            }
            if dense || (i - a) % 7 == 0 || Some(i) == lo_i || Some(i) == hi_i || i.abs() <= 1 {
                for f in fr1.iter() {
                    set.insert(format!("{ip}.{f}"));
                }
                for f in fr2 {
                    set.insert(format!("{ip}.{f}"));
                }
                for f in fr3 {
                    set.insert(format!("{ip}.{f}"));
                }
            }
        }
    }
    // neighbours of decimal bounds
    let extra: Vec<(String, bool)> = [spec.lo2.as_ref(), spec.hi2.as_ref()].into_iter().flatten().map(|b| (b.clone(), true)).collect();
    for bnd in [spec.lo.as_ref(), spec.hi.as_ref()].into_iter().flatten().chain(extra.iter()) {
        let d = Dec::parse(&bnd.0).unwrap();
        for sc in 1..=3u32 {
            if d.scale > sc {
                continue;
            }
            let m = d.mant * 10i128.pow(sc - d.scale);
            for delta in [-1i128, 0, 1] {
                let v = m + delta;
                let neg = v < 0;
                let av = v.abs();
                let ip = av / 10i128.pow(sc);
                let fp = av % 10i128.pow(sc);
                set.insert(format!("{}{}.{:0width$}", if neg { "-" } else { "" }, ip, fp, width = sc as usize));
            }
        }
        set.insert(bnd.0.clone());
    }
    // malformed spellings that must always be rejected
    for s in ["01", "-01", "00", "1.", ".5", "-", "+1", "1e2", "--1", "1.5.", "0x1", "1,5"] {
        set.insert(s.to_string());
    }
    set.into_iter().collect()
}

pub fn is_negative_zero(s: &str) -> bool {
    s.starts_with('-') && Dec::parse(s).map_or(false, |d| d.is_zero())
}

pub fn specs(ctx: &Ctx) -> Vec<NumSpec> {
    let mut out = vec![];
    let w = ctx.tier.pick(8i64, 30);
    let bound_ints: Vec<i64> = (-w..=w).collect();
    let mults_int: Vec<Option<&str>> = if ctx.quick() { vec![None, Some("3")] } else { vec![None, Some("1"), Some("2"), Some("3"), Some("7"), Some("10")] };
    let mults_num: Vec<Option<&str>> = if ctx.quick() { vec![None, Some("0.5")] } else { vec![None, Some("3"), Some("0.5"), Some("0.25"), Some("0.01")] };
    for integer in [true, false] {
        let mults = if integer { &mults_int } else { &mults_num };
        // two-sided: all integer pairs in the window (quick: stride on lo)
        for &lo in bound_ints.iter() {
            for &hi in bound_ints.iter() {
                if hi < lo {
                    continue;
                }
                if ctx.quick() && !((lo + w) % 3 == 0 || hi - lo <= 2 || lo == 0 || hi == 0) {
                    continue;
                }
                for ex in 0..4u8 {
                    for m in mults.iter() {
                        if !ctx.quick() || m.is_none() || (lo + hi) % 2 == 0 {
                            out.push(NumSpec { integer, lo: Some((lo.to_string(), ex & 1 == 1)), hi: Some((hi.to_string(), ex & 2 == 2)), mult: m.map(|x| x.to_string()), form: 0, lo2: None, hi2: None });
                        }
                    }
                }
                if (lo + hi) % 5 == 0 {
                    out.push(NumSpec { integer, lo: Some((lo.to_string(), true)), hi: Some((hi.to_string(), true)), mult: None, form: 1, lo2: None, hi2: None });
                    out.push(NumSpec { integer, lo: Some((lo.to_string(), false)), hi: Some((hi.to_string(), false)), mult: Some(if integer { "2".into() } else { "0.5".into() }), form: 2, lo2: None, hi2: None });
                }
            }
        }
        // one-sided
        for &b in bound_ints.iter() {
            for ex in [false, true] {
                for m in mults.iter() {
                    out.push(NumSpec { integer, lo: Some((b.to_string(), ex)), hi: None, mult: m.map(|x| x.to_string()), form: 0, lo2: None, hi2: None });
                    out.push(NumSpec { integer, lo: None, hi: Some((b.to_string(), ex)), mult: m.map(|x| x.to_string()), form: 0, lo2: None, hi2: None });
                }
            }
        }
        out.push(NumSpec { integer, lo: None, hi: None, mult: None, form: 0, lo2: None, hi2: None });
        // both keywords of one side at once (minimum + exclusiveMinimum, maximum + exclusiveMaximum):
        // every order of the two values in a small window, with and without the other side
        let bw = ctx.tier.pick(3i64, 6);
        for a in -bw..=bw {
            for b in (a - 2)..=(a + 2) {
                for ex in [false, true] {
                    for other in [None, Some(a - 4), Some(a + 4)] {
                        let lo_other = other.filter(|o| *o < a).map(|o| (o.to_string(), false));
                        let hi_other = other.filter(|o| *o > a).map(|o| (o.to_string(), false));
                        // two upper bounds
                        out.push(NumSpec { integer, lo: lo_other.clone(), hi: Some((a.to_string(), ex)), mult: None, form: 0, lo2: None, hi2: Some(b.to_string()) });
                        // two lower bounds
                        out.push(NumSpec { integer, lo: Some((a.to_string(), ex)), hi: hi_other.clone(), mult: None, form: 0, lo2: Some(b.to_string()), hi2: None });
                    }
                }
            }
        }
        for (a, b) in [("0.5", "0.75"), ("0.75", "0.5"), ("-1.5", "-1.5"), ("2.5", "3")] {
            for ex in [false, true] {
                out.push(NumSpec { integer, lo: None, hi: Some((a.to_string(), ex)), mult: None, form: 0, lo2: None, hi2: Some(b.to_string()) });
                out.push(NumSpec { integer, lo: Some((a.to_string(), ex)), hi: None, mult: None, form: 0, lo2: Some(b.to_string()), hi2: None });
            }
        }
        // decimal bounds x decimal steps: point ranges and narrow ranges on a grid of tenths / quarters, where binary
        // floating point cannot represent the quotients exactly (0.3 / 0.1), for number and for integer schemas
        // (an integer that is also a multiple of 0.75 is a multiple of 3)
        {
            let grid = ["0", "0.1", "0.2", "0.25", "0.3", "0.5", "0.6", "0.7", "0.75", "0.9", "1", "1.5", "2.25", "2.5", "3"];
            let steps: Vec<&str> = if ctx.quick() { vec!["0.1", "0.75"] } else { vec!["0.1", "0.25", "0.3", "0.75", "0.01", "1.5"] };
            for (i, lo) in grid.iter().enumerate() {
                for hi in grid.iter().skip(i) {
                    for m in steps.iter() {
                        for ex in [0u8, 3] {
                            if ex == 3 && lo == hi {
                                continue;
                            }
                            out.push(NumSpec { integer, lo: Some((lo.to_string(), ex & 1 == 1)), hi: Some((hi.to_string(), ex & 2 == 2)), mult: Some(m.to_string()), form: 0, lo2: None, hi2: None });
                        }
                    }
                }
            }
        }
        // decimal bounds
        let decs = ["-1.5", "-0.25", "-0.001", "0.001", "0.5", "0.75", "1.25", "2.5", "9.99", "10.01", "-3.125"];
        let decs: Vec<&str> = if ctx.quick() { decs[..6].to_vec() } else { decs.to_vec() };
        for (i, lo) in decs.iter().enumerate() {
            for ex in [false, true] {
                out.push(NumSpec { integer, lo: Some((lo.to_string(), ex)), hi: None, mult: None, form: 0, lo2: None, hi2: None });
                out.push(NumSpec { integer, lo: None, hi: Some((lo.to_string(), ex)), mult: None, form: 0, lo2: None, hi2: None });
            }
            for hi in decs.iter().skip(i) {
                if Dec::parse(hi).unwrap().cmp(&Dec::parse(lo).unwrap()) == std::cmp::Ordering::Less {
                    continue;
                }
                for ex in 0..4u8 {
                    out.push(NumSpec { integer, lo: Some((lo.to_string(), ex & 1 == 1)), hi: Some((hi.to_string(), ex & 2 == 2)), mult: None, form: 0, lo2: None, hi2: None });
                }
            }
            for hi_int in [-2i64, 0, 1, 3, 10] {
                out.push(NumSpec { integer, lo: Some((lo.to_string(), false)), hi: Some((hi_int.to_string(), false)), mult: None, form: 0, lo2: None, hi2: None });
                out.push(NumSpec { integer, lo: Some((hi_int.to_string(), true)), hi: Some((lo.to_string(), false)), mult: None, form: 0, lo2: None, hi2: None });
            }
        }
        // large magnitudes near powers of ten
        let ks: Vec<u32> = if ctx.quick() { vec![2, 3, 6] } else { vec![2, 3, 4, 6, 9, 12] };
        for k in ks {
            let p = 10i128.pow(k);
            for d in [-1i128, 0, 1] {
                for sign in [1i128, -1] {
                    let b = sign * (p + d);
                    out.push(NumSpec { integer, lo: Some((b.to_string(), false)), hi: Some(((b + 3).to_string(), false)), mult: None, form: 0, lo2: None, hi2: None });
                    out.push(NumSpec { integer, lo: Some(((b - 120).to_string(), true)), hi: Some((b.to_string(), true)), mult: None, form: 0, lo2: None, hi2: None });
                    out.push(NumSpec { integer, lo: Some((b.to_string(), false)), hi: None, mult: None, form: 0, lo2: None, hi2: None });
                    out.push(NumSpec { integer, lo: None, hi: Some((b.to_string(), false)), mult: None, form: 0, lo2: None, hi2: None });
                }
            }
        }
    }
    out
}

pub struct Disagreement {
    pub class: &'static str,
    pub literal: String,
    pub engine: bool,
    pub expected: bool,
}

/// classify one (spec, literal) comparison; None = agree or outside the domain
pub fn judge(spec: &NumSpec, lit: &str, engine_accepts: bool) -> Option<Disagreement> {
    let parsed = Dec::parse(lit);
    let plain = parsed.is_some() && !lit.contains('e') && !lit.contains('E');
    if !plain {
        // malformed spellings (incl. exponent forms, which are outside the claim): must be rejected
        if lit.contains('e') || lit.contains('E') {
            return None;
        }
        return if engine_accepts {
            Some(Disagreement { class: "numeric-accepts-malformed-literal", literal: lit.to_string(), engine: true, expected: false })
        } else {
            None
        };
    }
    if is_negative_zero(lit) {
        return None;
    }
    let v = parsed.unwrap();
    let has_frac = lit.contains('.');
    if spec.integer && has_frac && v.is_integer() {
        return None; // 2.0 under an integer schema: don't-care
    }
    let expected = spec.sat(&v);
    if expected == engine_accepts {
        return None;
    }
    let trailing_zero = has_frac && lit.ends_with('0');
    let class = if engine_accepts {
        "numeric-accepts-out-of-range"
    } else if trailing_zero {
        "numeric-rejects-valid-trailing-zero-literal"
    } else {
        "numeric-rejects-valid-literal"
    };
    Some(Disagreement { class, literal: lit.to_string(), engine: engine_accepts, expected })
}

pub fn engine_accepts(f: &Factory, root: &llguidance::Matcher, lit: &str) -> bool {
    crate::watchdog::beat();
    let trie = f.env.tok_trie();
    let mut m = root.clone();
    for b in lit.bytes() {
        let Some(t) = trie.token_id(&[b]) else { return false };
        if m.consume_token(t).is_err() {
            return false;
        }
    }
    if m.is_stopped() {
        return m.stop_reason().is_ok();
    }
    m.is_accepting().unwrap_or(false)
}

/// Two numeric sub-schemas in ONE document (a closed 2-tuple and an object with two required properties):
/// every ordered pair from a menu of ranges that normalise to the same or to different integer ranges
/// (inclusive and exclusive spellings) x multipleOf {none, 2, 3, 5}. Anything the compiler shares between
/// sub-schemas of one compilation (caches keyed by part of the schema) shows up as the second position
/// behaving like the first. Every pair of literals from a small grid is committed; expected = conjunction of
/// the two exact predicates.
fn pairs_in_one_document(ctx: &Ctx, evals: &AtomicU64) {
    let vocab = vocab::bytes_vocab(b"0123456789-.[],{}\"ab:");
    let mut menu: Vec<NumSpec> = vec![];
    for integer in [true, false] {
        let ranges: Vec<(Option<(String, bool)>, Option<(String, bool)>)> = vec![
            (None, None),
            (Some(("0".into(), false)), Some(("12".into(), false))),
            (Some(("-1".into(), true)), Some(("13".into(), true))),
            (Some(("3".into(), false)), None),
        ];
        for (lo, hi) in ranges {
            for m in [None, Some("2"), Some("3"), Some("5")] {
                if !integer && (m == Some("3") || lo.as_ref().map_or(false, |l| l.1)) {
                    continue;
                }
                menu.push(NumSpec { integer, lo: lo.clone(), hi: hi.clone(), mult: m.map(|x| x.to_string()), form: 0, lo2: None, hi2: None });
            }
        }
    }
    let lits: Vec<&str> = vec!["-2", "0", "1", "2", "3", "4", "5", "6", "7", "9", "10", "12", "13", "15", "30", "2.5"];
    let pairs: Vec<(usize, usize)> = (0..menu.len()).flat_map(|a| (0..menu.len()).map(move |b| (a, b))).filter(|(a, b)| a != b && menu[*a].integer == menu[*b].integer).collect();
    pairs.par_iter().for_each(|(ai, bi)| {
        if ctx.over_budget() {
            ctx.count("schemas_skipped_budget", 1);
            return;
        }
        let (a, b) = (&menu[*ai], &menu[*bi]);
        let f = Factory::new(&vocab, &Slices::None).unwrap();
        for form in 0..2 {
            let schema = if form == 0 {
                json!({"type": "array", "prefixItems": [a.schema(), b.schema()], "items": false, "minItems": 2, "x-guidance": {"whitespace_flexible": false}})
            } else {
                json!({"type": "object", "properties": {"a": a.schema(), "b": b.schema()}, "required": ["a", "b"], "additionalProperties": false, "x-guidance": {"whitespace_flexible": false}})
            };
            let Ok(root) = f.try_matcher(&GrammarSpec::Json(schema.clone())) else {
                ctx.count("pair_documents_refused", 1);
                continue;
            };
            ctx.states.fetch_add(1, Ordering::Relaxed);
            ctx.count("pair_documents", 1);
            for x in lits.iter() {
                for y in lits.iter() {
                    let text = if form == 0 { format!("[{x},{y}]") } else { format!("{{\"a\":{x},\"b\":{y}}}") };
                    let acc = engine_accepts(&f, &root, &text);
                    evals.fetch_add(1, Ordering::Relaxed);
                    ctx.transitions.fetch_add(text.len() as u64, Ordering::Relaxed);
                    let (vx, vy) = (Dec::parse(x).unwrap(), Dec::parse(y).unwrap());
                    let exp = a.sat(&vx) && b.sat(&vy);
                    if acc != exp {
                        ctx.violation(Violation {
                            check: "pair_in_one_document".into(),
                            class: if acc { "numeric-accepts-out-of-range".into() } else { "numeric-rejects-valid-literal".into() },
                            signature: format!("pair|{}|{}", schema, text),
                            detail: json!({"kind": "numeric", "schema": schema, "literal": text, "engine_accepts": acc, "reference": exp}),
                        });
                        return;
                    }
                }
            }
        }
    });
}

pub fn run(ctx: &Ctx) -> Coverage {
    let specs = specs(ctx);
    let vocab = vocab::bytes_vocab(b"0123456789-.+eEx, ");
    let evals = AtomicU64::new(0);
    ctx.note(format!("{} numeric schemas", specs.len()));
    let widen = ctx.tier.pick(6, 15);
    specs.par_iter().for_each(|spec| {
        if ctx.over_budget() {
            ctx.count("schemas_skipped_budget", 1);
            return;
        }
        let f = Factory::new(&vocab, &Slices::None).unwrap();
        let schema = spec.schema();
        let g = GrammarSpec::Json(schema.clone());
        let sat = spec.satisfiable();
        ctx.states.fetch_add(1, Ordering::Relaxed);
        match f.try_matcher(&g) {
            Err(e) => {
                let first = e.lines().next().unwrap_or("").to_string();
                if sat {
                    ctx.violation(Violation {
                        check: "compile_error_on_satisfiable".into(),
                        class: "numeric-satisfiable-schema-refused".into(),
                        signature: format!("refused|{}", schema),
                        detail: json!({"kind": "numeric", "schema": schema, "error": first}),
                    });
                } else {
                    ctx.count("unsatisfiable_refused_ok", 1);
                }
            }
            Ok(root) => {
                if !sat {
                    ctx.violation(Violation {
                        check: "unsatisfiable_compiled".into(),
                        class: "numeric-unsatisfiable-schema-compiled".into(),
                        signature: format!("compiled|{}", schema),
                        detail: json!({"kind": "numeric", "schema": schema, "what": "no value satisfies the bounds, but the schema compiled"}),
                    });
                }
                let lits = literals(spec, widen);
                let mut n_acc = 0u64;
                // lazily built engine for the same schema without multipleOf (attribution only)
                let mut no_mult_root: Option<Option<llguidance::Matcher>> = None;
                for lit in lits.iter() {
                    let acc = engine_accepts(&f, &root, lit);
                    evals.fetch_add(1, Ordering::Relaxed);
                    ctx.transitions.fetch_add(lit.len() as u64, Ordering::Relaxed);
                    if acc {
                        n_acc += 1;
                    }
                    if let Some(mut d) = judge(spec, lit, acc) {
                        if spec.mult.is_some() && !d.engine && lit.contains('.') {
                            // a valid literal with a fraction is rejected under multipleOf: if the same
                            // schema without multipleOf accepts it, the rejection comes from the
                            // multipleOf expression (derivre's digit-count restriction)
                            let r = no_mult_root.get_or_insert_with(|| {
                                let mut s2 = spec.clone();
                                s2.mult = None;
                                f.try_matcher(&GrammarSpec::Json(s2.schema())).ok()
                            });
                            if let Some(r) = r {
                                if engine_accepts(&f, r, lit) {
                                    d.class = "numeric-multipleof-rejects-fractional-spelling";
                                }
                            }
                        }
                        ctx.count(&format!("disagreements:{}", d.class), 1);
                        if d.class != "numeric-rejects-valid-trailing-zero-literal" && std::env::var("VERIF_DEBUG").is_ok() {
                            eprintln!("DBG {} {} lit={} engine={}", d.class, schema, d.literal, d.engine);
                        }
                        ctx.violation(Violation {
                            check: "literal".into(),
                            class: d.class.into(),
                            signature: format!("{}|{}|{}", d.class, schema, d.literal),
                            detail: json!({"kind": "numeric", "schema": schema, "literal": d.literal, "engine_accepts": d.engine, "reference": d.expected}),
                        });
                    }
                }
                ctx.outcome(fnv(format!("{}:{}", n_acc, lits.len()).as_bytes()) ^ fnv(schema.to_string().as_bytes()));
                if n_acc > 0 && (n_acc as usize) < lits.len() {
                    ctx.count("schemas_with_accepts_and_rejects", 1);
                }
                if ctx.states.load(Ordering::Relaxed) % 97 == 0 {
                    ctx.sample(json!({"schema": schema, "literals": lits.len(), "accepted": n_acc, "some": lits.iter().take(6).collect::<Vec<_>>()}));
                }
            }
        }
    });
    pairs_in_one_document(ctx, &evals);
    ctx.validated.store(evals.load(Ordering::Relaxed), Ordering::Relaxed);
    if ctx.get_count("schemas_with_accepts_and_rejects") == 0 {
        ctx.machinery_error("vacuous run: no schema with both accepted and rejected literals");
    }
    Coverage::StateGraph {
        rule: format!("{} integer/number schemas: every integer bound pair in a window (strided in the quick tier), every inclusive/exclusive combination (2020-12 and draft-4 boolean forms), one-sided forms, decimal bounds with <= 3 fractional digits, multipleOf alone and under allOf, bounds near +-10^k; for each schema every literal of a grid (all integers in the window widened by {widen}, 0-3 fractional digits incl. trailing zeros, neighbours of decimal bounds, malformed spellings) is committed byte by byte to a fresh clone of the real engine and compared with an exact decimal predicate; states = schemas, transitions = bytes committed, traces = literals; plus two numeric sub-schemas in one document (2-tuple / two required properties): every ordered pair of a 20-entry menu (ranges with equal and different normal forms x multipleOf none/2/3/5), every pair of 16 literals", specs.len()),
    }
}
