//! C18 — stop, end-of-sequence and accepting status are mutually consistent (protocol model +
//! language reference over every short call sequence incl. illegal calls), and the stop-sequence
//! controller returns exactly the text before the first stop (every short token sequence).
use crate::common::*;
use crate::engine::*;
use crate::refs::regex_dfa::*;
use crate::vocab::{self, VocabSpec};
use llguidance::api::TopLevelGrammar;
use llguidance::toktrie::InferenceCapabilities;
use llguidance::{Constraint, Matcher, ParserFactory, StopController};
use rayon::prelude::*;
use serde_json::json;
use std::sync::atomic::{AtomicU64, Ordering};

// ---------------------------------------------------------------------------------------
// (a) protocol

#[derive(Clone, Debug)]
struct Model {
    text: Vec<u8>,
    toks: Vec<u32>,
    stopped: bool,
    failed: bool,
}

struct ProtoEnv<'a> {
    f: &'a Factory,
    vocab: &'a VocabSpec,
    dfa: &'a Dfa,
    name: &'a str,
    g: &'a GrammarSpec,
    eos_all: Vec<u32>,
    /// grammars with stop= / max_tokens= lexemes: rollback is documented as unsupported
    /// ("rollback not supported with max_tokens=... or stop=... lexemes"), i.e. an invalid call
    no_rollback: bool,
}

impl<'a> ProtoEnv<'a> {
    fn q(&self, text: &[u8]) -> u32 {
        self.dfa.run(self.dfa.start, text)
    }
    /// tokens the reference allows next (ordinary tokens keeping the prefix viable, EOS when complete)
    fn legal(&self, m: &Model) -> Vec<u32> {
        if m.stopped || m.failed {
            return vec![];
        }
        let q = self.q(&m.text);
        let mut v = vec![];
        for (t, b) in self.vocab.tokens.iter().enumerate() {
            let t = t as u32;
            if self.eos_all.contains(&t) {
                if self.dfa.is_final(q) {
                    v.push(t);
                }
            } else if !b.is_empty() && b[0] != 0xFF && self.dfa.is_live(self.dfa.run(q, b)) {
                v.push(t);
            }
        }
        v
    }
    fn stops_after(&self, text: &[u8]) -> bool {
        let q = self.q(text);
        self.dfa.is_final(q) && !self.dfa.has_live_successor(q)
    }
}

fn pviol(env: &ProtoEnv, iface: &str, check: &str, class: &str, calls: &[String], what: serde_json::Value) -> Violation {
    Violation {
        check: format!("{iface}:{check}"),
        class: class.to_string(),
        signature: format!("{}|{}|{}|{}", iface, check, env.name, calls.join(",")),
        detail: json!({"kind": "protocol", "interface": iface, "grammar": env.g.to_json(), "vocab": env.vocab.to_json(), "calls": calls, "what": what}),
    }
}

/// Matcher interface: DFS over call sequences
fn matcher_dfs(env: &ProtoEnv, m: &Matcher, model: &Model, calls: &mut Vec<String>, depth: usize, n: &AtomicU64, out: &mut Option<Violation>) {
    if out.is_some() {
        return;
    }
    n.fetch_add(1, Ordering::Relaxed);
    // observers at every node (on clones)
    let legal = env.legal(model);
    {
        let mut c = m.clone();
        if model.failed {
            if !c.is_error() {
                *out = Some(pviol(env, "matcher", "failed_engine_recovered", "protocol-silently-wrong", calls, json!({})));
                return;
            }
            if c.compute_mask().is_ok() || c.consume_token(0).is_ok() || c.validate_tokens(&[0]).is_ok() {
                *out = Some(pviol(env, "matcher", "failed_engine_answers", "protocol-silently-wrong", calls, json!({})));
                return;
            }
        } else {
            if c.is_error() {
                *out = Some(pviol(env, "matcher", "error_after_legal_calls", "protocol-error-on-legal-call", calls, json!({"err": c.get_error()})));
                return;
            }
            if c.is_stopped() != model.stopped {
                *out = Some(pviol(env, "matcher", "stopped_flag", "protocol-stop-mismatch", calls, json!({"engine": c.is_stopped(), "model": model.stopped, "text": show(&model.text), "reason": format!("{:?}", c.stop_reason())})));
                return;
            }
            if model.stopped {
                if !env.dfa.is_final(env.q(&model.text)) {
                    *out = Some(pviol(env, "matcher", "stopped_on_incomplete_text", "protocol-stop-mismatch", calls, json!({"text": show(&model.text)})));
                    return;
                }
                // mask: error, or only EOS
                if let Ok(mk) = c.clone().compute_mask() {
                    if mask_to_vec(&mk).iter().any(|t| !env.eos_all.contains(t)) {
                        *out = Some(pviol(env, "matcher", "mask_after_stop", "protocol-accepts-after-stop", calls, json!({"mask": mask_to_vec(&mk)})));
                        return;
                    }
                }
                match c.clone().compute_mask_or_eos() {
                    Ok(mk) => {
                        let l = mask_to_vec(&mk);
                        if l.is_empty() || l.iter().any(|t| !env.eos_all.contains(t)) {
                            *out = Some(pviol(env, "matcher", "mask_or_eos_after_stop", "protocol-accepts-after-stop", calls, json!({"mask": l})));
                            return;
                        }
                    }
                    Err(e) => {
                        *out = Some(pviol(env, "matcher", "mask_or_eos_errs_after_stop", "protocol-error-on-legal-call", calls, json!({"err": e.to_string()})));
                        return;
                    }
                }
            } else {
                let acc = c.is_accepting().unwrap_or(false);
                if acc != env.dfa.is_final(env.q(&model.text)) {
                    *out = Some(pviol(env, "matcher", "accepting_flag", "protocol-stop-mismatch", calls, json!({"engine": acc, "text": show(&model.text)})));
                    return;
                }
                match c.compute_mask() {
                    Ok(mk) => {
                        if mask_to_vec(&mk) != legal {
                            *out = Some(pviol(env, "matcher", "mask_vs_reference", "protocol-mask-mismatch", calls, json!({"engine": mask_to_vec(&mk), "reference": legal, "text": show(&model.text)})));
                            return;
                        }
                    }
                    Err(e) => {
                        if !legal.is_empty() {
                            *out = Some(pviol(env, "matcher", "mask_error", "protocol-error-on-legal-call", calls, json!({"err": e.to_string()})));
                            return;
                        }
                    }
                }
            }
        }
    }
    if depth == 0 {
        return;
    }
    let nv = env.vocab.n() as u32;
    // candidate calls
    let mut ops: Vec<(String, u8, u32)> = vec![];
    for t in 0..nv {
        ops.push((format!("commit({t})"), 0, t));
    }
    ops.push((format!("commit({})", nv + 3), 0, nv + 3));
    for k in [1usize, 2, model.toks.len() + 1] {
        ops.push((format!("rollback({k})"), 1, k as u32));
    }
    ops.push(("mask".into(), 2, 0));
    ops.push(("validate_all".into(), 3, 0));
    ops.push(("reset".into(), 4, 0));
    ops.push(("ff_tokens".into(), 5, 0));
    // batches through consume_tokens / try_consume_tokens: around every EOS token, and one plain pair
    let mut batches: Vec<Vec<u32>> = vec![];
    if !model.failed && !model.stopped {
        let plain: Vec<u32> = legal.iter().copied().filter(|t| !env.eos_all.contains(t)).take(2).collect();
        for e in env.eos_all.iter() {
            batches.push(vec![*e, *e]);
            for t in plain.iter() {
                batches.push(vec![*t, *e, *t]);
                batches.push(vec![*e, *t]);
                batches.push(vec![*t, *e]);
            }
        }
        for t in plain.iter() {
            batches.push(vec![*t, *t]);
        }
    }
    for (bi, b) in batches.iter().enumerate() {
        ops.push((format!("consume_tokens({:?})", b), 6, bi as u32));
        ops.push((format!("try_consume_tokens({:?})", b), 7, bi as u32));
    }
    for (name, kind, arg) in ops {
        let mut c = m.clone();
        let mut md = model.clone();
        calls.push(name.clone());
        match kind {
            6 | 7 => {
                // reference: the tokens one at a time through the model
                let b = &batches[arg as usize];
                let mut n_ok = 0usize;
                // inside a batch the "complete and not extensible" stop is only evaluated at the end
                // (an EOS right after the final token is what the mask would offer); an EOS ends it at once
                // (consume_tokens); try_consume_tokens checks for a stop after every token, like single commits
                let mut eos_seen = false;
                for t in b.iter() {
                    md.stopped = eos_seen || (kind == 7 && env.stops_after(&md.text) && !md.toks.is_empty() && md.toks.len() > model.toks.len());
                    if !env.legal(&md).contains(t) {
                        break;
                    }
                    md.toks.push(*t);
                    if env.eos_all.contains(t) {
                        eos_seen = true;
                    } else {
                        md.text.extend_from_slice(&env.vocab.tokens[*t as usize]);
                    }
                    n_ok += 1;
                }
                md.stopped = eos_seen || env.stops_after(&md.text);
                if kind == 6 {
                    let r = c.consume_tokens(b);
                    if n_ok == b.len() {
                        if let Err(e) = r {
                            *out = Some(pviol(env, "matcher", "legal_batch_refused", "protocol-error-on-legal-call", calls, json!({"err": e.to_string()})));
                        }
                    } else {
                        md = model.clone();
                        if r.is_ok() {
                            *out = Some(pviol(env, "matcher", "illegal_batch_accepted", "protocol-illegal-call-accepted", calls, json!({"batch": b, "longest_legal_prefix": n_ok, "text": show(&model.text), "engine_stopped_afterwards": c.is_stopped()})));
                        } else if c.is_error() {
                            md.failed = true;
                        } else {
                            // usable: then it must be in the state the legal prefix leads to, or untouched;
                            // both are "as if ignored" only when nothing was consumed
                            *out = Some(pviol(env, "matcher", "batch_error_but_usable", "protocol-silently-wrong", calls, json!({"batch": b})));
                        }
                    }
                } else {
                    match c.try_consume_tokens(b) {
                        Ok(k) if k == n_ok => {}
                        Ok(k) => {
                            *out = Some(pviol(env, "matcher", "try_consume_tokens_count", "protocol-mask-mismatch", calls, json!({"batch": b, "engine": k, "reference": n_ok, "text": show(&model.text)})));
                        }
                        Err(e) => {
                            *out = Some(pviol(env, "matcher", "try_consume_tokens_error", "protocol-error-on-legal-call", calls, json!({"batch": b, "err": e.to_string()})));
                        }
                    }
                }
            }
            0 => {
                let t = arg;
                let is_legal = legal.contains(&t);
                let r = c.consume_token(t);
                if model.failed {
                    if r.is_ok() {
                        *out = Some(pviol(env, "matcher", "commit_on_failed_engine_ok", "protocol-silently-wrong", calls, json!({})));
                    }
                } else if is_legal {
                    if let Err(e) = r {
                        *out = Some(pviol(env, "matcher", "legal_commit_refused", "protocol-error-on-legal-call", calls, json!({"err": e.to_string()})));
                    } else {
                        md.toks.push(t);
                        if env.eos_all.contains(&t) {
                            md.stopped = true;
                        } else {
                            md.text.extend_from_slice(&env.vocab.tokens[t as usize]);
                            md.stopped = env.stops_after(&md.text);
                        }
                    }
                } else {
                    // illegal: must be an error; afterwards usable-as-if-ignored or failed for good
                    if r.is_ok() {
                        *out = Some(pviol(env, "matcher", "illegal_commit_accepted", if model.stopped { "protocol-accepts-after-stop" } else { "protocol-illegal-call-accepted" }, calls, json!({"token": t, "text": show(&model.text)})));
                    } else if c.is_error() {
                        md.failed = true;
                    }
                }
            }
            1 => {
                let k = arg as usize;
                let r = c.rollback(k);
                if model.failed {
                    if r.is_ok() {
                        *out = Some(pviol(env, "matcher", "rollback_on_failed_engine_ok", "protocol-silently-wrong", calls, json!({})));
                    }
                } else if env.no_rollback {
                    if r.is_ok() {
                        *out = Some(pviol(env, "matcher", "unsupported_rollback_accepted", "protocol-illegal-call-accepted", calls, json!({"k": k})));
                    } else if c.is_error() {
                        md.failed = true;
                    }
                } else if k <= model.toks.len() {
                    if let Err(e) = r {
                        *out = Some(pviol(env, "matcher", "legal_rollback_refused", "protocol-error-on-legal-call", calls, json!({"err": e.to_string()})));
                    } else {
                        md.toks.truncate(md.toks.len() - k);
                        md.text = md.toks.iter().filter(|t| !env.eos_all.contains(t)).flat_map(|t| env.vocab.tokens[*t as usize].clone()).collect();
                        md.stopped = false;
                        // rolling back to a text that is complete and not extensible leaves the
                        // engine un-stopped until the next commit; is_stopped is then false
                    }
                } else if r.is_ok() {
                    *out = Some(pviol(env, "matcher", "rollback_too_far_accepted", "protocol-illegal-call-accepted", calls, json!({"k": k})));
                } else if c.is_error() {
                    md.failed = true;
                }
            }
            2 => {
                let _ = c.compute_mask();
                if !model.failed && !model.stopped && legal.is_empty() && c.is_error() {
                    md.failed = true;
                } else if c.is_error() && !model.failed {
                    // a mask request after stop is allowed to be an error; it makes the matcher fail for good
                    md.failed = true;
                }
            }
            3 => {
                for t in 0..nv {
                    let r = c.validate_tokens(&[t]);
                    if !model.failed {
                        let exp = if legal.contains(&t) { 1 } else { 0 };
                        match r {
                            Ok(v) if v == exp => {}
                            Ok(v) => {
                                *out = Some(pviol(env, "matcher", "validate_vs_reference", "protocol-mask-mismatch", calls, json!({"token": t, "engine": v, "reference": exp, "text": show(&model.text)})));
                                break;
                            }
                            Err(e) => {
                                *out = Some(pviol(env, "matcher", "validate_error", "protocol-error-on-legal-call", calls, json!({"token": t, "err": e.to_string()})));
                                break;
                            }
                        }
                    }
                }
            }
            4 => {
                let r = c.reset();
                if !model.failed && env.no_rollback && !model.toks.is_empty() {
                    // reset = rollback of everything: unsupported for these grammars
                    if r.is_ok() {
                        // the reset reported success: then the engine must be back in its initial state
                        let fresh_mask = env.f.matcher(env.g).compute_mask().ok().map(|m| mask_to_vec(&m));
                        let now_mask = c.clone().compute_mask().ok().map(|m| mask_to_vec(&m));
                        if fresh_mask != now_mask {
                            let mut v = pviol(env, "matcher", "reset_ok_but_not_reset", "reset-reports-success-without-resetting", calls, json!({"mask_after_reset": now_mask, "initial_mask": fresh_mask, "text_before_reset": show(&model.text)}));
                            // specific signature: the grammar and the text committed before the reset
                            v.signature = format!("reset_ok_but_not_reset|{}|text={}", env.name, show(&model.text));
                            *out = Some(v);
                        } else {
                            md.toks.clear();
                            md.text.clear();
                            md.stopped = false;
                        }
                    } else if c.is_error() {
                        md.failed = true;
                    }
                } else if !model.failed {
                    if let Err(e) = r {
                        *out = Some(pviol(env, "matcher", "reset_refused", "protocol-error-on-legal-call", calls, json!({"err": e.to_string()})));
                    } else {
                        md.toks.clear();
                        md.text.clear();
                        md.stopped = false;
                    }
                }
            }
            _ => {
                let _ = c.compute_ff_tokens();
                let _ = c.compute_ff_bytes();
            }
        }
        if out.is_none() {
            // after a rollback onto a complete, non-extensible text the model's stop flag is
            // re-evaluated lazily by the engine only at the next commit: accept both by syncing
            if kind == 1 || kind == 4 {
                md.stopped = c.is_stopped() && env.stops_after(&md.text) && !md.failed;
                if c.is_stopped() && !md.failed && !env.stops_after(&md.text) {
                    *out = Some(pviol(env, "matcher", "stopped_after_rollback", "protocol-stop-mismatch", calls, json!({"text": show(&md.text)})));
                }
            }
            if out.is_none() {
                matcher_dfs(env, &c, &md, calls, depth - 1, n, out);
            }
        }
        calls.pop();
        if out.is_some() {
            return;
        }
    }
}

/// Constraint (sampling loop) interface
#[derive(Clone, Debug)]
struct CModel {
    text: Vec<u8>,
    has_mask: bool,
    stopped: bool,
    eos_committed: bool,
    failed: bool,
}

fn constraint_dfs(env: &ProtoEnv, c0: &Constraint, model: &CModel, calls: &mut Vec<String>, depth: usize, n: &AtomicU64, out: &mut Option<Violation>) {
    if out.is_some() || depth == 0 {
        return;
    }
    n.fetch_add(1, Ordering::Relaxed);
    let nv = env.vocab.n() as u32;
    let mm = Model { text: model.text.clone(), toks: vec![], stopped: model.stopped || model.eos_committed, failed: model.failed };
    let legal = env.legal(&mm);
    let mut ops: Vec<(String, Option<Option<u32>>)> = vec![("mask".into(), None)];
    for t in 0..nv {
        ops.push((format!("commit({t})"), Some(Some(t))));
    }
    ops.push((format!("commit({})", nv + 7), Some(Some(nv + 7))));
    ops.push(("commit(None)".into(), Some(None)));
    for (name, op) in ops {
        let mut c = c0.clone();
        let mut md = model.clone();
        calls.push(name);
        match op {
            None => {
                let r = c.compute_mask().map(|r| (r.sample_mask.clone(), r.is_stop()));
                match r {
                    Ok((mask, is_stop)) => {
                        if model.failed {
                            *out = Some(pviol(env, "constraint", "failed_engine_answers", "protocol-silently-wrong", calls, json!({})));
                        } else if model.stopped {
                            *out = Some(pviol(env, "constraint", "mask_after_stop_ok", "protocol-accepts-after-stop", calls, json!({"is_stop": is_stop})));
                        } else {
                            let exp_stop = model.eos_committed || env.stops_after(&model.text);
                            if is_stop != exp_stop {
                                *out = Some(pviol(env, "constraint", "stop_vs_reference", "protocol-stop-mismatch", calls, json!({"engine_stop": is_stop, "reference_stop": exp_stop, "text": show(&model.text)})));
                            } else if is_stop {
                                if !env.dfa.is_final(env.q(&model.text)) {
                                    *out = Some(pviol(env, "constraint", "stopped_on_incomplete_text", "protocol-stop-mismatch", calls, json!({"text": show(&model.text)})));
                                }
                                md.stopped = true;
                                md.has_mask = false;
                            } else {
                                let l = mask.as_ref().map(mask_to_vec).unwrap_or_default();
                                if l != legal {
                                    *out = Some(pviol(env, "constraint", "mask_vs_reference", "protocol-mask-mismatch", calls, json!({"engine": l, "reference": legal, "text": show(&model.text)})));
                                }
                                md.has_mask = true;
                            }
                        }
                    }
                    Err(_) => {
                        if !model.failed && !model.stopped && !legal.is_empty() {
                            // an error on a legal mask request
                            *out = Some(pviol(env, "constraint", "mask_error", "protocol-error-on-legal-call", calls, json!({"text": show(&model.text)})));
                        }
                        if !model.stopped {
                            md.failed = true;
                        }
                    }
                }
            }
            Some(tok) => {
                let r = c.commit_token(tok);
                let legal_call = model.has_mask && !model.failed && !model.stopped && tok.map_or(false, |t| legal.contains(&t));
                match r {
                    Ok(cr) => {
                        if model.stopped {
                            // commit after stop returns the stop result and appends nothing
                            if !cr.stop || !cr.ff_tokens.is_empty() {
                                *out = Some(pviol(env, "constraint", "commit_after_stop", "protocol-accepts-after-stop", calls, json!({"stop": cr.stop, "tokens": cr.ff_tokens})));
                            }
                        } else if !legal_call {
                            *out = Some(pviol(env, "constraint", "illegal_commit_accepted", "protocol-illegal-call-accepted", calls, json!({"token": tok, "had_mask": model.has_mask, "text": show(&model.text), "tokens": cr.ff_tokens})));
                        } else {
                            let t = tok.unwrap();
                            if cr.ff_tokens != vec![t] || cr.backtrack != 0 {
                                *out = Some(pviol(env, "constraint", "commit_result_tokens", "protocol-stop-mismatch", calls, json!({"tokens": cr.ff_tokens, "backtrack": cr.backtrack})));
                            }
                            if env.eos_all.contains(&t) {
                                md.eos_committed = true;
                            } else {
                                md.text.extend_from_slice(&env.vocab.tokens[t as usize]);
                            }
                            md.has_mask = false;
                        }
                    }
                    Err(e) => {
                        if legal_call {
                            *out = Some(pviol(env, "constraint", "legal_commit_refused", "protocol-error-on-legal-call", calls, json!({"err": e.to_string()})));
                        } else if !model.failed && !model.stopped {
                            // illegal call: either ignored (usable) or failed for good. Decide by
                            // probing a clone: if a mask request now fails the engine is failed.
                            let mut probe = c.clone();
                            let usable = probe.compute_mask().is_ok();
                            if !usable {
                                md.failed = true;
                            } else {
                                md.has_mask = model.has_mask;
                            }
                        }
                    }
                }
            }
        }
        if out.is_none() {
            constraint_dfs(env, &c, &md, calls, depth - 1, n, out);
        }
        calls.pop();
        if out.is_some() {
            return;
        }
    }
}

fn proto_grammars() -> Vec<(&'static str, GrammarSpec, R)> {
    let a = || ch('a');
    let b = || ch('b');
    let c = || ch('c');
    vec![
        ("only-stop", GrammarSpec::Regex("ab".into()), cat(a(), b())),
        ("stop-or-continue", GrammarSpec::Regex("a+".into()), R::Plus(Box::new(a()))),
        ("opt-tail", GrammarSpec::Regex("ab?".into()), cat(a(), R::Opt(Box::new(b())))),
        ("alt-star", GrammarSpec::Regex("(a|b)c*".into()), cat(alt(a(), b()), R::Star(Box::new(c())))),
        ("empty-ok", GrammarSpec::Regex("a*".into()), R::Star(Box::new(a()))),
        ("two-lexemes", GrammarSpec::Lark("start: A B?\nA: /a+/\nB: \"b\"".into()), cat(R::Plus(Box::new(a())), R::Opt(Box::new(b())))),
        // gen-style attributes: the byte language is still regular (body, then the stop / suffix text)
        ("stop-attr", GrammarSpec::Lark("start: g \",\"\ng[stop=\"x\"]: /[a-c]*/".into()), cat(R::Star(Box::new(R::Class(vec![('a', 'c')], false))), cat(ch('x'), ch(',')))),
        ("suffix-attr", GrammarSpec::Lark("start: g \",\"\ng[suffix=\"x\"]: /[a-c]*/".into()), cat(R::Star(Box::new(R::Class(vec![('a', 'c')], false))), cat(ch('x'), ch(',')))),
        ("lazy-attr", GrammarSpec::Lark("start: h \",\"\nh[lazy]: /[a-cx]*x/".into()), cat(R::Star(Box::new(R::Class(vec![('a', 'c')], false))), cat(ch('x'), ch(',')))),
        ("stop-at-eos", GrammarSpec::Lark("start: \"x\" g\ng[stop=\"\"]: /[a-c]*/".into()), cat(ch('x'), R::Star(Box::new(R::Class(vec![('a', 'c')], false))))),
        ("list", GrammarSpec::Lark("start: W (\",\" W)*\nW: /[ab]+/".into()), {
            let w = R::Plus(Box::new(R::Class(vec![('a', 'b')], false)));
            cat(w.clone(), R::Star(Box::new(cat(ch(','), w))))
        }),
    ]
}

fn run_protocol(ctx: &Ctx) {
    let depth_m = ctx.tier.pick(4, 5);
    let depth_c = ctx.tier.pick(4, 6);
    let mut v1 = vocab::bytes_vocab(b"abc,x");
    v1.tokens.pop();
    v1.tokens.push(b"ab".to_vec());
    v1.tokens.push(vocab::EOS_BYTES.to_vec());
    v1.eos = v1.tokens.len() as u32 - 1;
    v1.name = "P(7)".into();
    let mut v2 = v1.clone();
    v2.tokens.insert(v2.tokens.len() - 1, b"\xFF<eos2>".to_vec());
    v2.eos = v2.tokens.len() as u32 - 1;
    v2.extra_eos = vec![v2.eos - 1];
    v2.name = "P(8,two-eos)".into();
    let n = AtomicU64::new(0);
    let jobs: Vec<(usize, usize, bool)> = (0..proto_grammars().len()).flat_map(|g| (0..2).flat_map(move |v| [(g, v, false), (g, v, true)])).collect();
    jobs.par_iter().for_each(|(gi, vi, constraint)| {
        let (name, g, r) = proto_grammars().into_iter().nth(*gi).unwrap();
        let vocab = if *vi == 0 { &v1 } else { &v2 };
        let f = Factory::new(vocab, &Slices::Default).unwrap();
        let dfa = compile(&r);
        let mut eos_all = vec![vocab.eos];
        eos_all.extend(vocab.extra_eos.iter().copied());
        let no_rollback = matches!(&g, GrammarSpec::Lark(t) if t.contains("[stop=") || t.contains("max_tokens="));
        let env = ProtoEnv { f: &f, vocab, dfa: &dfa, name, g: &g, eos_all, no_rollback };
        let mut out = None;
        let mut calls = vec![];
        if *constraint {
            let Ok(tp) = env.f.factory.create_parser(g.top()) else { return };
            let c = Constraint::new(tp);
            constraint_dfs(&env, &c, &CModel { text: vec![], has_mask: false, stopped: false, eos_committed: false, failed: false }, &mut calls, depth_c, &n, &mut out);
            // replay entry point: Constraint::force_tokens(history) on a fresh constraint for every legal history of
            // <= 3 tokens (EOS-terminated ones included), then the sampling loop continues from there
            let mut hists: Vec<(Vec<u32>, Model)> = vec![(vec![], Model { text: vec![], toks: vec![], stopped: false, failed: false })];
            let mut i = 0;
            while i < hists.len() && out.is_none() {
                let (h, md) = hists[i].clone();
                i += 1;
                if !h.is_empty() {
                    let Ok(tp) = env.f.factory.create_parser(g.top()) else { break };
                    let mut c = Constraint::new(tp);
                    calls.clear();
                    calls.push(format!("start_without_prompt, force_tokens({:?})", h));
                    c.start_without_prompt();
                    if let Err(e) = c.force_tokens(&h) {
                        out = Some(pviol(&env, "constraint", "force_tokens_refused", "protocol-error-on-legal-call", &calls, json!({"err": e.to_string()})));
                        break;
                    }
                    let eos_committed = env.eos_all.contains(h.last().unwrap());
                    ctx.count("force_tokens_histories", 1);
                    constraint_dfs(&env, &c, &CModel { text: md.text.clone(), has_mask: false, stopped: false, eos_committed, failed: false }, &mut calls, 3, &n, &mut out);
                }
                if h.len() < 3 && !md.stopped {
                    for t in env.legal(&md) {
                        let mut m2 = md.clone();
                        m2.toks.push(t);
                        if env.eos_all.contains(&t) {
                            m2.stopped = true;
                        } else {
                            m2.text.extend_from_slice(&env.vocab.tokens[t as usize]);
                        }
                        let mut h2 = h.clone();
                        h2.push(t);
                        hists.push((h2, m2));
                    }
                }
            }
        } else {
            let m = env.f.matcher(&g);
            matcher_dfs(&env, &m, &Model { text: vec![], toks: vec![], stopped: false, failed: false }, &mut calls, depth_m, &n, &mut out);
        }
        ctx.count(if *constraint { "constraint_protocol_jobs" } else { "matcher_protocol_jobs" }, 1);
        if let Some(v) = out {
            ctx.violation(v);
        }
    });
    let c = n.load(Ordering::Relaxed);
    ctx.count("protocol_nodes", c);
    ctx.states.fetch_add(c, Ordering::Relaxed);
    ctx.transitions.fetch_add(c, Ordering::Relaxed);
    ctx.validated.fetch_add(c, Ordering::Relaxed);
}

// ---------------------------------------------------------------------------------------
// (a') max_tokens=: the language depends on token boundaries, so the reference is a token-level model

/// grammar: seg_0 "," seg_1 "," ... ; seg_i = a gen-style rule `g_i[max_tokens=N_i]: /[CLASS]*/` (or `+`)
struct MtSeg {
    class: &'static [u8],
    min_len: usize,
    max_tokens: usize,
}

fn run_max_tokens(ctx: &Ctx) {
    let mut v1 = vocab::bytes_vocab(b"abc,x");
    v1.tokens.pop();
    v1.tokens.push(b"ab".to_vec());
    v1.tokens.push(b"bc".to_vec());
    v1.tokens.push(vocab::EOS_BYTES.to_vec());
    v1.eos = v1.tokens.len() as u32 - 1;
    v1.name = "P(8)".into();
    let cases: Vec<(String, Vec<MtSeg>)> = {
        let mut c = vec![];
        for n in 1..=3usize {
            c.push((format!("start: g \",\"\ng[max_tokens={n}]: /[a-c]*/"), vec![MtSeg { class: b"abc", min_len: 0, max_tokens: n }, MtSeg { class: b"", min_len: 0, max_tokens: 0 }]));
            c.push((format!("start: \"x\" g\ng[max_tokens={n}]: /[a-c]+/"), vec![MtSeg { class: b"abc", min_len: 1, max_tokens: n }]));
        }
        c.push(("start: g \",\" h\ng[max_tokens=2]: /[a-c]*/\nh[max_tokens=1]: /[ab]+/".to_string(), vec![MtSeg { class: b"abc", min_len: 0, max_tokens: 2 }, MtSeg { class: b"ab", min_len: 1, max_tokens: 1 }]));
        c
    };
    let depth = ctx.tier.pick(5, 6);
    let n = AtomicU64::new(0);
    cases.par_iter().for_each(|(src, segs)| {
        let f = Factory::new(&v1, &Slices::Default).unwrap();
        let g = GrammarSpec::Lark(src.clone());
        let prefix_x = src.contains("\"x\" g");
        let Ok(root) = f.try_matcher(&g) else {
            ctx.machinery_error(format!("max_tokens grammar refused: {src}"));
            return;
        };
        // model state: (seen the leading x, segment index, bytes in segment, tokens in segment, done)
        #[derive(Clone)]
        struct St {
            x: bool,
            seg: usize,
            len: usize,
            toks: usize,
        }
        let nv = v1.n() as u32;
        let legal = |st: &St| -> (Vec<u32>, bool) {
            // returns (legal tokens, accepting)
            if prefix_x && !st.x {
                return (vec![v1.tokens.iter().position(|t| t == b"x").unwrap() as u32], false);
            }
            let sg = &segs[st.seg];
            let last = st.seg + 1 == segs.len();
            let accepting = last && st.len >= sg.min_len;
            let mut l = vec![];
            for t in 0..nv {
                let b = &v1.tokens[t as usize];
                if t == v1.eos {
                    if accepting {
                        l.push(t);
                    }
                } else if b == b"," {
                    if !last && st.len >= sg.min_len {
                        l.push(t);
                    }
                } else if !b.is_empty() && b.iter().all(|x| sg.class.contains(x)) && st.toks < sg.max_tokens {
                    l.push(t);
                }
            }
            (l, accepting)
        };
        let mut stack = vec![(root, St { x: false, seg: 0, len: 0, toks: 0 }, Vec::<u32>::new())];
        while let Some((m, st, hist)) = stack.pop() {
            crate::watchdog::beat();
            n.fetch_add(1, Ordering::Relaxed);
            let (l, acc) = legal(&st);
            let exp_stopped = acc && l.iter().all(|t| *t == v1.eos) && !hist.is_empty();
            let mk = |check: &str, what: serde_json::Value| Violation {
                check: format!("max_tokens:{check}"),
                class: "protocol-mask-mismatch".into(),
                signature: format!("max_tokens|{}|{}|{:?}", check, src, hist),
                detail: json!({"kind": "engine_history", "grammar": g.to_json(), "vocab": v1.to_json(), "slices": Slices::Default.to_json(), "history": hist, "what": what}),
            };
            if m.is_error() {
                ctx.violation(mk("error_after_legal_commits", json!({"err": m.get_error()})));
                return;
            }
            // The documentation promises an upper bound ("limits the number of tokens generated for the
            // terminal"); which token is the first one counted is not specified (the engine counts the token
            // in which the terminal starts). So the model is one-sided for the limited tokens: the engine may
            // end the terminal earlier than the model's count, never later; everything else is exact.
            if exp_stopped && !m.is_stopped() {
                ctx.violation(mk("not_stopped_at_limit", json!({"engine": m.is_stopped(), "model": exp_stopped})));
                return;
            }
            if m.is_stopped() {
                if !acc {
                    ctx.violation(mk("stopped_on_incomplete_text", json!({})));
                    return;
                }
                continue;
            }
            let mut c = m.clone();
            if c.is_accepting().unwrap_or(false) != acc {
                ctx.violation(mk("accepting_flag", json!({"engine": !acc, "model": acc})));
                return;
            }
            let em: Vec<u32> = match c.compute_mask() {
                Ok(mask) => {
                    let em = mask_to_vec(&mask);
                    let beyond: Vec<u32> = em.iter().copied().filter(|t| !l.contains(t)).collect();
                    let is_limited = |t: &u32| *t != v1.eos && v1.tokens[*t as usize] != b",";
                    let missing_exact: Vec<u32> = l.iter().copied().filter(|t| !em.contains(t) && !is_limited(t)).collect();
                    // limited tokens: all of the model's or none of them (the limit is per terminal, not per token)
                    let lim_model: Vec<u32> = l.iter().copied().filter(|t| is_limited(t)).collect();
                    let lim_engine: Vec<u32> = em.iter().copied().filter(|t| is_limited(t)).collect();
                    if !beyond.is_empty() || !missing_exact.is_empty() || !(lim_engine.is_empty() || lim_engine == lim_model) {
                        ctx.violation(mk("mask_vs_token_model", json!({"engine": em, "model": l, "beyond_the_limit_or_language": beyond, "missing": missing_exact})));
                        return;
                    }
                    em
                }
                Err(e) => {
                    ctx.violation(mk("mask_error", json!({"err": e.to_string()})));
                    return;
                }
            };
            // rollback is documented as unsupported for these grammars: it must err, never succeed
            if !hist.is_empty() && m.clone().rollback(1).is_ok() {
                ctx.violation(mk("unsupported_rollback_accepted", json!({})));
                return;
            }
            if hist.len() >= depth {
                continue;
            }
            for t in 0..nv {
                let mut c2 = m.clone();
                let r = c2.consume_token(t);
                if em.contains(&t) != r.is_ok() {
                    ctx.violation(mk("commit_vs_mask", json!({"token": t, "engine_ok": r.is_ok(), "in_mask": em.contains(&t)})));
                    return;
                }
                if r.is_ok() && t != v1.eos {
                    let b = &v1.tokens[t as usize];
                    let mut s2 = st.clone();
                    if prefix_x && !st.x {
                        s2.x = true;
                    } else if b == b"," {
                        s2.seg += 1;
                        s2.len = 0;
                        s2.toks = 0;
                    } else {
                        s2.len += b.len();
                        s2.toks += 1;
                    }
                    let mut h2 = hist.clone();
                    h2.push(t);
                    stack.push((c2, s2, h2));
                }
            }
        }
        ctx.count("max_tokens_grammars", 1);
    });
    let c = n.load(Ordering::Relaxed);
    ctx.count("max_tokens_nodes", c);
    ctx.states.fetch_add(c, Ordering::Relaxed);
    ctx.transitions.fetch_add(c * 8, Ordering::Relaxed);
    ctx.validated.fetch_add(c, Ordering::Relaxed);
}

// ---------------------------------------------------------------------------------------
// (b) stop controller

#[derive(Clone, Debug)]
pub(crate) struct StopCfg {
    pub(crate) stop_tokens: Vec<u32>,
    pub(crate) regex: Option<&'static str>,
    pub(crate) strings: Vec<&'static str>,
}

pub(crate) fn stop_vocab() -> VocabSpec {
    let mut toks: Vec<Vec<u8>> = vec![];
    for s in ["a", "b", "x", "y", "1", "ab", "xa", "é", "ba"] {
        toks.push(s.as_bytes().to_vec());
    }
    toks.push(vec![0xC3]);
    toks.push(vec![0xA9]);
    toks.push(vec![b'a', 0xC3]);
    toks.push(vec![0xF0, 0x9F]);
    toks.push(vec![0x98, 0x80]);
    toks.push(b"\xFF<s>".to_vec());
    toks.push(vec![]);
    toks.push(vocab::EOS_BYTES.to_vec());
    let eos = toks.len() as u32 - 1;
    VocabSpec { name: "STOP(17)".into(), tokens: toks, eos, extra_eos: vec![], canonical: false }
}

pub(crate) fn stop_cfgs(eos: u32) -> Vec<StopCfg> {
    let mut v = vec![];
    let strs: Vec<Vec<&'static str>> = vec![vec![], vec!["x"], vec!["ab"], vec!["ab", "b"], vec!["é"], vec!["a", "aa"], vec!["xy", "y"], vec!["ba", "ab"], vec!["1a"]];
    let rxs: Vec<Option<&'static str>> = vec![None, Some("a?b"), Some("ab|b"), Some("[0-9]+"), Some("x.y"), Some("é+")];
    for s in strs.iter() {
        v.push(StopCfg { stop_tokens: vec![], regex: None, strings: s.clone() });
        v.push(StopCfg { stop_tokens: vec![eos, 1], regex: None, strings: s.clone() });
    }
    for r in rxs.iter() {
        v.push(StopCfg { stop_tokens: vec![eos], regex: *r, strings: vec![] });
        v.push(StopCfg { stop_tokens: vec![], regex: *r, strings: vec!["y"] });
    }
    v
}

/// reference: decoded text up to (excluding) the first stop
fn stop_patterns(cfg: &StopCfg) -> Vec<regex::bytes::Regex> {
    cfg.strings
        .iter()
        .map(|s| s.to_string())
        .chain(cfg.regex.iter().map(|r| r.to_string()))
        .map(|p| regex::bytes::Regex::new(&format!("^(?:{})$", p)).unwrap())
        .collect()
}

/// returns (expected output, stopped, shortest-match output when several stop candidates end
/// at the same position)
fn stop_reference(vocab: &VocabSpec, cfg: &StopCfg, pats: &[regex::bytes::Regex], toks: &[u32]) -> Option<(Vec<u8>, bool, Option<Vec<u8>>)> {
    // rendering of the token stream; regex state restarts after special / empty tokens, so the
    // search for string/regex stops is done per segment between them
    let mut out: Vec<u8> = vec![];
    let mut seg_start = 0usize;
    for t in toks {
        if cfg.stop_tokens.contains(t) {
            return Some((out, true, None));
        }
        let b = &vocab.tokens[*t as usize];
        if b.is_empty() {
            out.extend_from_slice(format!("<[{}]>", t).as_bytes());
            seg_start = out.len();
            continue;
        }
        if b[0] == 0xFF {
            out.extend_from_slice(&b[1..]);
            seg_start = out.len();
            continue;
        }
        for byte in b {
            out.push(*byte);
            // earliest end: does any stop match a substring of the current segment ending here?
            let e = out.len();
            let starts: Vec<usize> = (seg_start..e).filter(|s| pats.iter().any(|p| p.is_match(&out[*s..e]))).collect();
            if let Some(s) = starts.first().copied() {
                let shortest = if starts.len() > 1 { Some(out[..*starts.last().unwrap()].to_vec()) } else { None };
                out.truncate(s); // leftmost start
                return Some((out, true, shortest));
            }
        }
    }
    Some((out, false, None))
}

fn run_stop_controller(ctx: &Ctx) {
    let vocab = stop_vocab();
    let env = vocab.build();
    let cfgs = stop_cfgs(vocab.eos);
    let maxlen = ctx.tier.pick(4, 5);
    let n = AtomicU64::new(0);
    let nv = vocab.n() as u32;
    cfgs.par_iter().for_each(|cfg| {
        let ctrl = match StopController::new(env.clone(), cfg.stop_tokens.clone(), cfg.regex.map(|s| s.to_string()), cfg.strings.iter().map(|s| s.to_string()).collect()) {
            Ok(c) => c,
            Err(e) => {
                ctx.machinery_error(format!("StopController::new refused {:?}: {e}", cfg));
                return;
            }
        };
        let pats = stop_patterns(cfg);
        // DFS over token sequences; controller cloned per prefix
        struct Fr {
            ctrl: StopController,
            toks: Vec<u32>,
            out: Vec<u8>,
            chunks_ok: bool,
        }
        let mut stack = vec![Fr { ctrl, toks: vec![], out: vec![], chunks_ok: true }];
        let mut reported = false;
        while let Some(fr) = stack.pop() {
            crate::watchdog::beat();
            if reported {
                break;
            }
            if fr.toks.len() >= maxlen {
                continue;
            }
            for t in 0..nv {
                let mut c = fr.ctrl.clone();
                let mut toks = fr.toks.clone();
                toks.push(t);
                n.fetch_add(1, Ordering::Relaxed);
                let r = guarded(|| c.commit_token(t));
                let mk = |check: &str, class: &str, what: serde_json::Value| Violation {
                    check: format!("stop:{check}"),
                    class: class.to_string(),
                    signature: format!("{}|{:?}|{:?}", check, cfg, toks),
                    detail: json!({"kind": "stop_controller", "config": format!("{:?}", cfg), "vocab": vocab.to_json(), "tokens": toks, "token_bytes": toks.iter().map(|x| show(&vocab.tokens[*x as usize])).collect::<Vec<_>>(), "what": what}),
                };
                let chunk = match r {
                    Ok(s) => s,
                    Err(p) => {
                        ctx.violation(mk("panic", "stop-controller-panic", json!({"panic": p.lines().next().unwrap_or("")})));
                        reported = true;
                        break;
                    }
                };
                let raw: Vec<u8> = toks.iter().flat_map(|x| vocab.tokens[*x as usize].clone()).collect();
                let input_valid = {
                    // validity of the rendered text
                    let rendered: Vec<u8> = toks.iter().flat_map(|x| { let b = &vocab.tokens[*x as usize]; if b.first() == Some(&0xFF) { b[1..].to_vec() } else if b.is_empty() { format!("<[{}]>", x).into_bytes() } else { b.clone() } }).collect();
                    std::str::from_utf8(&rendered).is_ok() || valid_prefix(&rendered)
                };
                let _ = raw;
                let mut out = fr.out.clone();
                out.extend_from_slice(chunk.as_bytes());
                let mut chunks_ok = fr.chunks_ok;
                if chunk.contains('\u{FFFD}') && input_valid {
                    chunks_ok = false;
                }
                if input_valid {
                    if let Some((exp, exp_stopped, shortest)) = stop_reference(&vocab, cfg, &pats, &toks) {
                        // the controller may hold back a suffix (possible stop prefix or partial
                        // character) until stopped: output must be a prefix of the expected text,
                        // and equal to it once stopped
                        if !chunks_ok {
                            ctx.violation(mk("replacement_char", "stop-controller-splits-character", json!({"chunk": chunk})));
                            reported = true;
                            break;
                        }
                        if c.is_stopped() != exp_stopped {
                            ctx.violation(mk("stopped_flag", "stop-controller-wrong-text", json!({"engine_stopped": c.is_stopped(), "expected_stopped": exp_stopped, "output": show(&out), "expected_text": show(&exp)})));
                            reported = true;
                            break;
                        }
                        let ok = if exp_stopped { out == exp } else { exp.starts_with(&out) };
                        if !ok {
                            let class = if shortest.as_ref() == Some(&out) { "stop-controller-overlapping-stops-leak-text" } else { "stop-controller-wrong-text" };
                            ctx.violation(mk("text", class, json!({"output": show(&out), "expected": show(&exp), "stopped": exp_stopped})));
                            reported = true;
                            break;
                        }
                        if exp_stopped {
                            // nothing after stop
                            let mut c2 = c.clone();
                            for t2 in 0..nv {
                                if !c2.commit_token(t2).is_empty() {
                                    ctx.violation(mk("output_after_stop", "stop-controller-wrong-text", json!({"token_after": t2})));
                                    reported = true;
                                    break;
                                }
                            }
                            ctx.outcome(fnv(&out) ^ 1);
                            continue;
                        }
                        ctx.outcome(fnv(&out));
                    }
                }
                if !c.is_stopped() {
                    stack.push(Fr { ctrl: c, toks, out, chunks_ok });
                }
            }
        }
        ctx.count("stop_configs", 1);
    });
    let c = n.load(Ordering::Relaxed);
    ctx.count("stop_controller_commits", c);
    ctx.states.fetch_add(c, Ordering::Relaxed);
    ctx.transitions.fetch_add(c, Ordering::Relaxed);
    ctx.validated.fetch_add(c, Ordering::Relaxed);
}

/// bytes are valid UTF-8 except for an incomplete character at the very end
fn valid_prefix(b: &[u8]) -> bool {
    match std::str::from_utf8(b) {
        Ok(_) => true,
        Err(e) => e.error_len().is_none(),
    }
}

pub fn run(ctx: &Ctx) -> Coverage {
    run_protocol(ctx);
    ctx.note(format!("protocol done at {:.1}s", ctx.elapsed()));
    run_max_tokens(ctx);
    run_stop_controller(ctx);
    ctx.note(format!("stop controller done at {:.1}s", ctx.elapsed()));
    ctx.sample(json!({"protocol": "matcher: commit(0), mask, commit(9 = out of range), rollback(1)", "stop_controller": "stops {ab, b}, tokens [x, a, b]"}));
    let _ = (TopLevelGrammar::from_regex("a"), InferenceCapabilities::default());
    let _: Option<ParserFactory> = None;
    if ctx.get_count("protocol_nodes") == 0 || ctx.get_count("stop_controller_commits") == 0 {
        ctx.machinery_error("vacuous run");
    }
    Coverage::StateGraph {
        rule: "(a) every call sequence up to a depth bound over {commit of every token id incl. out-of-range, rollback k (legal and too far), mask, validate-all, reset, ff queries} on the Matcher and {compute_mask, commit_token of every id / out-of-range / None} on the Constraint, for 7 grammars whose language a reference DFA knows, single- and two-EOS vocabularies; a protocol model (text, stopped, failed) + the DFA predict stop, accepting, mask and every call's success; (a') max_tokens=: 7 grammars with token-limited gen rules against a token-level model (tokens consumed per rule; one-sided for the limit, which the documentation gives as an upper bound: the engine may end the terminal earlier, never later), every token id in every state to depth 5/6: mask, accepting, stop, commit result, rollback refusal; (b) stop controller: 30 configurations of stop tokens / strings / regexes x every token sequence up to a length bound over a 17-token vocabulary (multi-byte characters split across tokens, special and empty tokens): output compared with the decoded text before the first stop (earliest end, leftmost start), chunks valid UTF-8, nothing after stop, no panic".into(),
    }
}
