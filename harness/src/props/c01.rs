//! C01 — the mask is exactly the accepted-token set (speculative path vs definitive path).
use crate::common::*;
use crate::corpus;
use crate::engine::*;
use crate::explore::*;
use crate::jobs::*;
use llguidance::Matcher;
use serde_json::json;
use std::collections::BTreeMap;
use std::collections::HashSet;
use std::sync::atomic::Ordering;

pub struct JobOut {
    pub stats: ExploreStats,
    pub counters: BTreeMap<String, u64>,
    pub outcomes: HashSet<u64>,
    pub violation: Option<Violation>,
    pub inadmissible: bool,
}

fn viol(job: &Job, slices: &Slices, check: &str, class: &str, hist: &[u32], what: serde_json::Value, sig_extra: &str) -> Violation {
    Violation {
        check: check.to_string(),
        class: class.to_string(),
        signature: format!("{}|{}|{}|{:?}|{}", check, job.item.name, job.vocab.name, hist, sig_extra),
        detail: json!({
            "kind": "engine_history",
            "grammar": job.item.g.to_json(),
            "vocab": job.vocab.to_json(),
            "slices": slices.to_json(),
            "history": hist,
            "history_bytes": hist.iter().map(|t| show(&job.vocab.tokens[*t as usize])).collect::<Vec<_>>(),
            "what": what,
        }),
    }
}

pub fn is_resource_limit(msg: &str) -> bool {
    msg.contains("Too many items") || msg.contains("lexer error") || msg.contains("too many states") || msg.contains("Current row has")
}

/// longest prefix p of w such that consume_tokens(w[..p]) succeeds on a clone
fn longest_committable(m: &Matcher, w: &[u32]) -> usize {
    let mut best = 0;
    for p in 1..=w.len() {
        let mut c = m.clone();
        if c.consume_tokens(&w[..p]).is_ok() {
            best = p;
        } else {
            break;
        }
    }
    best
}

/// The per-state oracle. Returns (successors, observation hash) or a violation.
pub fn check_state(
    job: &Job,
    slices: &Slices,
    f: &Factory,
    m: &mut Matcher,
    hist: &[u32],
    depth: usize,
    pair_depth: usize,
    cnt: &mut BTreeMap<String, u64>,
    inadmissible: &mut bool,
) -> Result<(Vec<u32>, u64), Violation> {
    let nv = f.n_vocab as u32;
    let trie = f.env.tok_trie();
    let mut c = |k: &str| *cnt.entry(k.to_string()).or_insert(0) += 1;
    if m.is_error() {
        return Err(viol(job, slices, "state_error", "engine-error-on-legal-history", hist, json!({"error": m.get_error()}), ""));
    }
    if m.is_stopped() {
        c("stopped_states");
        return Ok((vec![], 0x5709));
    }
    let canonical = job.vocab.canonical;
    // forced tokens (canonical tokenizers only)
    let ff = if canonical { m.clone().compute_ff_tokens() } else { vec![] };
    if canonical {
        let fb = m.clone().compute_ff_bytes();
        for b in fb.iter() {
            if *b != 0xFF && trie.token_id(&[*b]).is_none() {
                *inadmissible = true;
                return Ok((vec![], 0));
            }
        }
    }
    let mut probe = m.clone();
    let mask = match probe.compute_mask() {
        Ok(mk) => mk,
        Err(e) => {
            let msg = e.to_string();
            if is_resource_limit(&msg) {
                // documented resource-limit stop (e.g. an unproductive rule forcing bytes forever)
                *inadmissible = true;
                return Ok((vec![], 0));
            }
            // empty mask: nothing may be accepted either
            c("mask_error_states");
            for t in 0..nv {
                let mut v = m.clone();
                if v.validate_tokens(&[t]).unwrap_or(0) == 1 {
                    return Err(viol(job, slices, "mask_err_but_accepts", "mask-missing-accepted-token", hist,
                        json!({"token": t, "mask_error": e.to_string()}), &format!("t{t}")));
                }
            }
            return Ok((vec![], 0xE0));
        }
    };
    // now compute on the state itself (the normal flow: mask, then commit)
    let mask2 = match m.compute_mask() {
        Ok(mk) => mk,
        Err(e) => {
            return Err(viol(job, slices, "mask_nondeterministic", "mask-differs-between-clones", hist, json!({"err": e.to_string()}), ""));
        }
    };
    if mask2.as_slice() != mask.as_slice() {
        return Err(viol(job, slices, "mask_nondeterministic", "mask-differs-between-clones", hist,
            json!({"a": mask_to_vec(&mask), "b": mask_to_vec(&mask2)}), ""));
    }
    let accepting = m.is_accepting().unwrap_or(false);
    // no bit at or above the vocabulary size
    for t in mask.iter() {
        if t >= nv {
            return Err(viol(job, slices, "bit_above_vocab", "mask-bit-above-vocab", hist, json!({"bit": t}), ""));
        }
    }
    // EOS <=> accepting -- except for a grammar that names the end-of-sequence token itself (`"a" <eos> "b"`):
    // there the token is also a terminal of the grammar, in the mask at the positions that name it
    let names_eos = matches!(&job.item.g, GrammarSpec::Lark(t) if t.contains("<eos>"));
    for &e in trie.eos_tokens() {
        if names_eos && mask.is_allowed(e) && !accepting {
            continue;
        }
        if e < nv && mask.is_allowed(e) != accepting {
            return Err(viol(job, slices, "eos_vs_accepting", "eos-accepting-mismatch", hist,
                json!({"eos": e, "in_mask": mask.is_allowed(e), "accepting": accepting}), ""));
        }
    }
    let forcing = !ff.is_empty();
    if forcing {
        c("forcing_states");
        let ml = mask_to_vec(&mask);
        if ml != vec![ff[0]] {
            return Err(viol(job, slices, "forced_mask_not_singleton", "forcing-mask-wrong", hist,
                json!({"mask": ml, "ff_tokens": ff}), ""));
        }
    }
    let n_allowed = mask.num_set();
    if n_allowed > 0 && (n_allowed as u32) < nv {
        c("strict_subset_masks");
    }
    let mut scratch = m.clone();
    let mut accepted: Vec<u32> = vec![];
    for t in 0..nv {
        let v = match scratch.validate_tokens(&[t]) {
            Ok(n) => n == 1,
            Err(e) => {
                return Err(viol(job, slices, "validate_error", "validate-error", hist, json!({"token": t, "err": e.to_string()}), &format!("t{t}")));
            }
        };
        let mut cl = m.clone();
        let cmr = cl.consume_token(t);
        if let Err(e) = &cmr {
            if is_resource_limit(&e.to_string()) {
                *inadmissible = true;
                return Ok((vec![], 0));
            }
            if e.to_string().starts_with("panic") {
                c("commit_panics");
                if std::env::var("VERIF_DEBUG").is_ok() { eprintln!("PANIC {} hist={:?} t={} {}", job.item.g.short(), hist, t, e.to_string().lines().next().unwrap_or("")); }
            }
        }
        let cm = cmr.is_ok();
        let in_mask = mask.is_allowed(t);
        if v != cm {
            return Err(viol(job, slices, "validate_vs_commit", "validate-commit-mismatch", hist,
                json!({"token": t, "token_bytes": show(trie.token(t)), "validate": v, "commit": cm, "in_mask": in_mask}), &format!("t{t}")));
        }
        if in_mask && !cm {
            return Err(viol(job, slices, "mask_but_rejected", "mask-token-rejected", hist,
                json!({"token": t, "token_bytes": show(trie.token(t)), "validate": v, "commit": cm}), &format!("t{t}")));
        }
        if !in_mask && cm && !forcing {
            return Err(viol(job, slices, "accepted_not_in_mask", "mask-missing-accepted-token", hist,
                json!({"token": t, "token_bytes": show(trie.token(t)), "validate": v, "commit": cm}), &format!("t{t}")));
        }
        if cm {
            accepted.push(t);
            if trie.token(t).len() >= 2 && !trie.is_special_token(t) {
                c("multibyte_tokens_accepted");
            }
        }
    }
    if scratch.is_error() {
        return Err(viol(job, slices, "validate_poisoned", "validate-error", hist, json!({"err": scratch.get_error()}), ""));
    }
    // sequences
    let eos: Vec<u32> = trie.eos_tokens().to_vec();
    let mut cand: Vec<u32> = if depth <= pair_depth && nv <= 64 {
        (0..nv).collect()
    } else {
        let mut cset = accepted.clone();
        let mut outs = 0;
        for t in 0..nv {
            if !mask.is_allowed(t) && outs < 3 {
                cset.push(t);
                outs += 1;
            }
        }
        if cset.len() > 24 {
            cset.truncate(24);
        }
        cset
    };
    cand.sort();
    cand.dedup();
    for &t1 in accepted.iter().take(if depth <= pair_depth { usize::MAX } else { 16 }) {
        if eos.contains(&t1) {
            continue; // EOS only in last position
        }
        for &t2 in cand.iter() {
            let w = [t1, t2];
            let v = scratch.validate_tokens(&w).unwrap_or(usize::MAX);
            let exp = longest_committable(m, &w);
            c("pair_sequences");
            if v != exp {
                return Err(viol(job, slices, "validate_seq", "validate-sequence-length", hist,
                    json!({"seq": w, "seq_bytes": [show(trie.token(t1)), show(trie.token(t2))], "validate": v, "longest_committable": exp}), &format!("{:?}", w)));
            }
            // try_consume_tokens commits exactly that prefix (no EOS in first position, so no stop in between)
            if !eos.contains(&t2) {
                let mut tc = m.clone();
                let n = tc.try_consume_tokens(&w).unwrap_or(usize::MAX);
                c("try_consume_sequences");
                if n != exp {
                    return Err(viol(job, slices, "try_consume_seq", "validate-sequence-length", hist,
                        json!({"seq": w, "try_consume_tokens": n, "longest_committable": exp}), &format!("tc{:?}", w)));
                }
            }
            if depth <= 1 && exp == 2 && !eos.contains(&t2) {
                for &t3 in cand.iter().take(8) {
                    let w3 = [t1, t2, t3];
                    let v = scratch.validate_tokens(&w3).unwrap_or(usize::MAX);
                    let exp = longest_committable(m, &w3);
                    c("triple_sequences");
                    if v != exp {
                        return Err(viol(job, slices, "validate_seq", "validate-sequence-length", hist,
                            json!({"seq": w3, "validate": v, "longest_committable": exp}), &format!("{:?}", w3)));
                    }
                }
            }
        }
    }
    let st = m.last_step_stats().map(|s| s.slices_applied).unwrap_or(0);
    if st > 0 {
        c("slicer_applied_states");
    }
    let obs = mask_hash(&mask) ^ ((accepting as u64) << 1) ^ hash_u64s(&ff.iter().map(|x| *x as u64).collect::<Vec<_>>());
    let succ = if forcing { vec![ff[0]] } else { mask_to_vec(&mask) };
    Ok((succ, obs))
}

pub fn run_job(job: &Job, slices: &Slices, cfg: &ExploreCfg, pair_depth: usize) -> JobOut {
    let mut out = JobOut {
        stats: ExploreStats::default(),
        counters: BTreeMap::new(),
        outcomes: HashSet::new(),
        violation: None,
        inadmissible: false,
    };
    let f = match Factory::new(&job.vocab, slices) {
        Ok(f) => f,
        Err(_) => {
            out.inadmissible = true;
            return out;
        }
    };
    let root = match f.try_matcher(&job.item.g) {
        Ok(m) => m,
        Err(_) => {
            out.inadmissible = true;
            return out;
        }
    };
    let mut violation = None;
    let mut inadmissible = false;
    let mut cnt = BTreeMap::new();
    let mut outcomes = HashSet::new();
    let stats = explore(root, cfg, |m, hist, depth| {
        match check_state(job, slices, &f, m, hist, depth, pair_depth, &mut cnt, &mut inadmissible) {
            Ok((succ, obs)) => {
                if inadmissible {
                    return None;
                }
                outcomes.insert(obs);
                Some(succ)
            }
            Err(v) => {
                violation = Some(v);
                None
            }
        }
    });
    if violation.is_none() && !inadmissible {
        if let Some((h, t, e)) = stats.failed_commits.first() {
            violation = Some(viol(job, slices, "successor_commit_failed", "mask-token-rejected", h, json!({"token": t, "err": e}), &format!("t{t}")));
        }
    }
    out.stats = stats;
    out.counters = cnt;
    out.outcomes = outcomes;
    out.violation = violation;
    out.inadmissible = inadmissible;
    out
}

/// identity-key cross-check of the state abstraction: the observation sets up to depth d
/// must be identical with and without deduplication. Returns Err(msg) on mismatch.
pub fn key_crosscheck(job: &Job, slices: &Slices, d: usize) -> Result<(), String> {
    let mut sets: Vec<HashSet<(usize, u64)>> = vec![];
    for use_key in [true, false] {
        let Ok(f) = Factory::new(&job.vocab, slices) else { return Ok(()) };
        let Ok(root) = f.try_matcher(&job.item.g) else { return Ok(()) };
        let mut set = HashSet::new();
        let mut cnt = BTreeMap::new();
        let mut inad = false;
        let cfg = ExploreCfg { max_depth: d, max_states: 20000, use_key };
        let st = explore(root, &cfg, |m, hist, depth| {
            match check_state(job, slices, &f, m, hist, depth, 0, &mut cnt, &mut inad) {
                Ok((succ, obs)) => {
                    set.insert((depth, obs));
                    // keep the fan-out bounded identically in both runs
                    Some(succ.into_iter().take(12).collect())
                }
                Err(_) => None,
            }
        });
        if st.cap_hit {
            return Ok(()); // not comparable
        }
        sets.push(set);
    }
    // with dedup a state may be reached at its *minimal* depth only; compare ignoring depth
    let a: HashSet<u64> = sets[0].iter().map(|x| x.1).collect();
    let b: HashSet<u64> = sets[1].iter().map(|x| x.1).collect();
    if a != b {
        return Err(format!(
            "state-key abstraction mismatch on {} / {}: keyed={} identity={} observations",
            job.item.name, job.vocab.name, a.len(), b.len()
        ));
    }
    Ok(())
}

pub fn run(ctx: &Ctx) -> Coverage {
    let mut items = corpus::all_items();
    items.extend(corpus::special_items());
    items.extend(corpus::option_items());
    items.extend(crate::gen::lark_family(ctx.tier.pick(3, 4)));
    let kinds: Vec<VKind> = if ctx.quick() {
        vec![VKind::Bytes, VKind::Multi2, VKind::Multi2Canon]
    } else {
        vec![VKind::Bytes, VKind::Multi2, VKind::Multi3, VKind::Multi2Canon, VKind::Multi3Canon, VKind::B256, VKind::B256Canon, VKind::Tik(600), VKind::TikCanon(600)]
    };
    let jobs = make_jobs(&items, &kinds);
    let depth = ctx.tier.pick(5, 9);
    let max_states = ctx.tier.pick(400, 6000);
    run_jobs(ctx, &jobs, |job| {
        let big = job.vocab.n() > 200;
        let cfg = ExploreCfg {
            max_depth: if big { depth.min(4) } else { depth },
            max_states: if big { max_states / 8 } else { max_states },
            use_key: true,
        };
        for slices in [Slices::Default] {
            let out = run_job(job, &slices, &cfg, ctx.tier.pick(1, 2));
            if out.inadmissible {
                ctx.count("jobs_inadmissible", 1);
                continue;
            }
            ctx.states.fetch_add(out.stats.states, Ordering::Relaxed);
            ctx.transitions.fetch_add(out.stats.transitions, Ordering::Relaxed);
            ctx.validated.fetch_add(out.stats.transitions, Ordering::Relaxed);
            ctx.add_counts(&out.counters);
            ctx.outcomes_extend(out.outcomes);
            if out.stats.closure_complete {
                ctx.count("jobs_closure_complete", 1);
            }
            if out.stats.cap_hit {
                ctx.count("jobs_state_cap_hit", 1);
            }
            ctx.count_max("max_depth_completed", out.stats.depth_completed as u64);
            if let Some(v) = out.violation {
                ctx.violation(v);
            }
        }
        ctx.sample(json!({"grammar": job.item.g.short(), "vocab": job.vocab.name, "n_tokens": job.vocab.n()}));
    });
    // abstraction guard on a fixed subset of jobs
    let guard_jobs: Vec<&Job> = jobs.iter().filter(|j| j.kind == VKind::Multi2 || j.kind == VKind::Multi2Canon).take(ctx.tier.pick(24, 80)).collect();
    let errs: Vec<String> = {
        use rayon::prelude::*;
        guard_jobs.par_iter().filter_map(|j| key_crosscheck(j, &Slices::Default, 3).err()).collect()
    };
    ctx.count("key_crosschecks", guard_jobs.len() as u64);
    for e in errs {
        ctx.machinery_error(e);
    }
    if ctx.get_count("strict_subset_masks") == 0 || ctx.get_count("multibyte_tokens_accepted") == 0 {
        ctx.machinery_error("vacuous run: no strict-subset mask or no multi-byte token accepted");
    }
    Coverage::StateGraph {
        rule: format!(
            "BFS over real engine states (dedup on committed-state key) to depth {depth}, <= {max_states} states per (grammar, vocabulary) job; in every state every token id is validated and committed on a clone and compared with the mask; all pairs over accepted x (whole vocabulary at depth <= pair_depth, else mask+3 outsiders), triples at depth <= 1; distinct = distinct (mask, accepting, ff-tokens) observations"
        ),
    }
}
