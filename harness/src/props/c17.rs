//! C17 — the C API returns what the Rust API returns and stays inside caller buffers.
//! The extern "C" functions are called from Rust, in lock-step with the Rust objects, over all
//! histories to a small depth; llg_par_compute_mask is called with every destination length that
//! is a multiple of 4 from 0 to twice the mask size + 8, under a guard allocator.
use crate::common::*;
use crate::guard_alloc::{ARMED, BROKEN_REDZONES, POISON_WORD};
use llguidance::api::TopLevelGrammar;
use llguidance::ffi::*;
use llguidance::toktrie::{InferenceCapabilities, TokEnv};
use llguidance::{Constraint, Matcher, ParserFactory};
use serde_json::json;
use std::ffi::{c_void, CString};
use std::sync::atomic::{AtomicU32, Ordering};

struct CTok {
    ptr: *mut LlgTokenizer,
    words: Vec<Vec<u8>>,
    eos: u32,
    /// data the tokenizer's callback points into (V2 tokenizers with a tokenize_fn)
    _keep: Option<Box<toktrie::TokTrie>>,
}

/// which tokenizer variant the current job runs on (jobs are sequential): part of every signature
static VARIANT: std::sync::Mutex<&'static str> = std::sync::Mutex::new("v1");
fn variant() -> &'static str {
    *VARIANT.lock().unwrap()
}

fn mk_words(n: usize, alpha: &[u8], multi: &[&str]) -> Vec<Vec<u8>> {
    let mut w: Vec<Vec<u8>> = alpha.iter().map(|b| vec![*b]).collect();
    for m in multi {
        w.push(m.as_bytes().to_vec());
    }
    let mut i = 0;
    while w.len() < n - 1 {
        w.push(format!("~z{i}").into_bytes());
        i += 1;
    }
    w.truncate(n - 1);
    w.push(b"\xFF<eos>".to_vec());
    w
}

fn new_c_tokenizer(words: &[Vec<u8>]) -> Result<CTok, String> {
    let lens: Vec<u32> = words.iter().map(|w| w.len() as u32).collect();
    let bytes: Vec<u8> = words.iter().flatten().copied().collect();
    let eos = words.len() as u32 - 1;
    let init = LlgTokenizerInit {
        vocab_size: words.len() as u32,
        tok_eos: eos,
        token_lens: lens.as_ptr(),
        token_bytes: bytes.as_ptr(),
        tokenizer_json: std::ptr::null(),
        tokenize_assumes_string: false,
        tokenize_fn: None,
        use_approximate_greedy_tokenize_fn: true,
        tokenize_user_data: std::ptr::null(),
        slices: std::ptr::null(),
    };
    let mut err = vec![0u8; 256];
    let p = unsafe { llg_new_tokenizer(&init, err.as_mut_ptr() as *mut i8, err.len()) };
    if p.is_null() {
        return Err(String::from_utf8_lossy(&err).to_string());
    }
    Ok(CTok { ptr: p, words: words.to_vec(), eos, _keep: None })
}

fn rust_env(words: &[Vec<u8>]) -> TokEnv {
    crate::vocab::VocabSpec { name: "c17".into(), tokens: words.to_vec(), eos: words.len() as u32 - 1, extra_eos: vec![], canonical: false }.build()
}

fn mask_words(n_vocab: usize) -> usize {
    // the Rust API allocates vocab_size + 1 bits
    (n_vocab + 1).div_ceil(32)
}

extern "C" fn done_cb(user: *const c_void) {
    let a = unsafe { &*(user as *const AtomicU32) };
    a.fetch_add(1, Ordering::SeqCst);
}

struct Env {
    ctok: CTok,
    factory: ParserFactory,
    n_vocab: usize,
    /// fast-forward tokens capability on both sides (C: init.ff_tokens_ok)
    ff: bool,
}

fn viol(check: &str, class: &str, g: &(String, String), n_vocab: usize, hist: &[u32], what: serde_json::Value) -> Violation {
    Violation {
        check: check.to_string(),
        class: class.to_string(),
        signature: format!("{}|{}:{}|V{}{}|{:?}|{}", check, g.0, g.1, n_vocab, if variant() == "v1" { String::new() } else { format!("/{}", variant()) }, hist, what),
        detail: json!({"kind": "ffi", "grammar_type": g.0, "grammar": g.1, "vocab_size": n_vocab, "tokenizer_variant": variant(), "history": hist, "what": what}),
    }
}

/// all checks in one state (history already applied to all four objects)
#[allow(clippy::too_many_arguments)]
fn check_state(
    ctx: &Ctx,
    env: &Env,
    g: &(String, String),
    hist: &[u32],
    cc: *mut LlgConstraint,
    rc: &mut Constraint,
    cm: *mut LlgMatcher,
    rm: &mut Matcher,
) -> Result<Vec<u32>, Violation> {
    let nv = env.n_vocab;
    let words = mask_words(nv);
    let v = |check: &str, class: &str, what: serde_json::Value| viol(check, class, g, nv, hist, what);
    // ---- matcher interface
    let r_stopped = rm.is_stopped();
    if unsafe { llg_matcher_is_stopped(&*cm) } != r_stopped {
        return Err(v("matcher_is_stopped", "ffi-result-differs", json!({})));
    }
    if unsafe { llg_matcher_is_accepting(&mut *cm) } != rm.is_accepting().unwrap_or(false) {
        return Err(v("matcher_is_accepting", "ffi-result-differs", json!({})));
    }
    let bsz = unsafe { llg_matcher_get_mask_byte_size(&*cm) };
    if bsz != words * 4 && bsz != nv.div_ceil(32) * 4 {
        return Err(v("matcher_mask_byte_size", "ffi-result-differs", json!({"got": bsz, "vocab": nv})));
    }
    let r_mask = rm.compute_mask_or_eos();
    let rcode = unsafe { llg_matcher_compute_mask(&mut *cm) };
    if (rcode == 0) != r_mask.is_ok() {
        return Err(v("matcher_compute_mask_code", "ffi-result-differs", json!({"c": rcode, "rust_ok": r_mask.is_ok()})));
    }
    let mut succ = vec![];
    if let Ok(rmk) = &r_mask {
        let p = unsafe { llg_matcher_get_mask(&mut *cm) };
        if p.is_null() {
            return Err(v("matcher_get_mask_null", "ffi-result-differs", json!({})));
        }
        let n = bsz / 4;
        let got = unsafe { std::slice::from_raw_parts(p, n) };
        if got != &rmk.as_slice()[..n] {
            return Err(v("matcher_get_mask", "ffi-result-differs", json!({"c": got, "rust": rmk.as_slice()})));
        }
        for w in 0..n {
            for b in 0..32 {
                if got[w] & (1 << b) != 0 && w * 32 + b >= nv {
                    return Err(v("matcher_mask_bit_above_vocab", "ffi-mask-bits", json!({"bit": w * 32 + b})));
                }
            }
        }
        // compute_mask_into with canaries
        let mut buf = vec![0xC0FFEE11u32; n + 4];
        let rc2 = unsafe { llg_matcher_compute_mask_into(&mut *cm, buf.as_mut_ptr().add(2), bsz) };
        if rc2 != 0 || &buf[2..2 + n] != got || buf[0] != 0xC0FFEE11 || buf[1] != 0xC0FFEE11 || buf[n + 2] != 0xC0FFEE11 || buf[n + 3] != 0xC0FFEE11 {
            return Err(v("matcher_compute_mask_into", "ffi-buffer", json!({"rc": rc2, "buf": buf})));
        }
        // a wrong length must be refused, not written
        if n > 0 {
            let mut m2 = unsafe { &*cm }.clone_for_probe();
            let mut buf = vec![0xC0FFEE11u32; n + 4];
            let rc3 = unsafe { llg_matcher_compute_mask_into(&mut *m2, buf.as_mut_ptr().add(2), bsz - 4) };
            unsafe { llg_free_matcher(m2) };
            if rc3 == 0 || buf.iter().any(|x| *x != 0xC0FFEE11) {
                return Err(v("matcher_compute_mask_into_short", "ffi-buffer", json!({"rc": rc3})));
            }
        }
        if !r_stopped {
            succ = rmk.iter().collect();
        }
        ctx.outcome(fnv(&got.iter().flat_map(|w| w.to_le_bytes()).collect::<Vec<u8>>()));
    }
    // validate_tokens for every token and a few pairs
    if !r_stopped {
        for t in 0..nv as u32 {
            let toks = [t];
            let c = unsafe { llg_matcher_validate_tokens(&mut *cm, toks.as_ptr(), 1) };
            let r = rm.validate_tokens(&toks).map(|x| x as i32).unwrap_or(-1);
            if c != r {
                return Err(v("matcher_validate_tokens", "ffi-result-differs", json!({"token": t, "c": c, "rust": r})));
            }
        }
        for a in succ.iter().take(4) {
            for b in 0..(nv as u32).min(12) {
                let toks = [*a, b];
                let c = unsafe { llg_matcher_validate_tokens(&mut *cm, toks.as_ptr(), 2) };
                let r = rm.validate_tokens(&toks).map(|x| x as i32).unwrap_or(-1);
                if c != r {
                    return Err(v("matcher_validate_tokens2", "ffi-result-differs", json!({"tokens": toks, "c": c, "rust": r})));
                }
            }
        }
        let mut out = vec![0xC0FFEE11u32; 8];
        let c = unsafe { llg_matcher_compute_ff_tokens(&mut *cm, out.as_mut_ptr(), 4) };
        let r = rm.compute_ff_tokens();
        if c as usize != r.len().min(4) || out[..c.max(0) as usize] != r[..r.len().min(4)] || out[4..].iter().any(|x| *x != 0xC0FFEE11) {
            return Err(v("matcher_compute_ff_tokens", "ffi-result-differs", json!({"c": c, "out": out, "rust": r})));
        }
    }
    // rollback / re-commit round trip through the C API on clones
    if !hist.is_empty() {
        let m2 = unsafe { llg_clone_matcher(&*cm) };
        let mut r2 = rm.deep_clone();
        let k = 1 + (hist.len() - 1) % 2;
        let c = unsafe { llg_matcher_rollback(&mut *m2, k) };
        let r = r2.rollback(k);
        if (c == 0) != r.is_ok() {
            unsafe { llg_free_matcher(m2) };
            return Err(v("matcher_rollback_code", "ffi-result-differs", json!({"k": k, "c": c})));
        }
        if c == 0 {
            let _ = unsafe { llg_matcher_compute_mask(&mut *m2) };
            let p = unsafe { llg_matcher_get_mask(&mut *m2) };
            let rmk = r2.compute_mask_or_eos();
            if let (false, Ok(rmk)) = (p.is_null(), rmk) {
                let got = unsafe { std::slice::from_raw_parts(p, bsz / 4) };
                if got != &rmk.as_slice()[..bsz / 4] {
                    unsafe { llg_free_matcher(m2) };
                    return Err(v("matcher_rollback_mask", "ffi-result-differs", json!({"k": k})));
                }
            }
        }
        unsafe { llg_free_matcher(m2) };
    }
    // reset, then consume_tokens(history) through the C API on a clone: same state as before
    {
        let m2 = unsafe { llg_clone_matcher(&*cm) };
        let mut r2 = rm.deep_clone();
        // a mask computed in this state, immediately before the reset
        let _ = unsafe { llg_matcher_compute_mask(&mut *m2) };
        let c = unsafe { llg_matcher_reset(&mut *m2) };
        let r = r2.reset();
        if (c == 0) != r.is_ok() {
            unsafe { llg_free_matcher(m2) };
            return Err(v("matcher_reset_code", "ffi-result-differs", json!({"c": c, "rust_ok": r.is_ok()})));
        }
        if c == 0 {
            // the mask right after the reset (a mask was computed in this state before the reset: it must not survive)
            let _ = unsafe { llg_matcher_compute_mask(&mut *m2) };
            let p0 = unsafe { llg_matcher_get_mask(&mut *m2) };
            let mut r0 = r2.deep_clone();
            if let (false, Ok(rmk0)) = (p0.is_null(), r0.compute_mask_or_eos()) {
                let got = unsafe { std::slice::from_raw_parts(p0, bsz / 4) };
                if got != &rmk0.as_slice()[..bsz / 4] {
                    unsafe { llg_free_matcher(m2) };
                    return Err(v("matcher_mask_after_reset", "ffi-result-differs", json!({"c": got, "rust": &rmk0.as_slice()[..bsz / 4]})));
                }
            }
            let c2 = unsafe { llg_matcher_consume_tokens(&mut *m2, hist.as_ptr(), hist.len()) };
            let rr = r2.consume_tokens(hist);
            let same_code = (c2 == 0) == rr.is_ok();
            let _ = unsafe { llg_matcher_compute_mask(&mut *m2) };
            let p = unsafe { llg_matcher_get_mask(&mut *m2) };
            let rmk = r2.compute_mask_or_eos();
            let mut same_mask = true;
            if let (false, Ok(rmk)) = (p.is_null(), &rmk) {
                let got = unsafe { std::slice::from_raw_parts(p, bsz / 4) };
                same_mask = got == &rmk.as_slice()[..bsz / 4];
            }
            let same_stop = unsafe { llg_matcher_is_stopped(&*m2) } == r2.is_stopped();
            if !same_code || !same_mask || !same_stop {
                unsafe { llg_free_matcher(m2) };
                return Err(v("matcher_reset_consume_tokens", "ffi-result-differs", json!({"consume_code": c2, "rust_ok": rr.is_ok(), "same_mask": same_mask, "same_stop": same_stop})));
            }
        }
        unsafe { llg_free_matcher(m2) };
    }
    // batches through llg_matcher_consume_tokens on clones: [t, EOS], [t, u], [EOS, t], [t, EOS, t] for a few
    // successors t, u (a batch is not the same as single commits: the stop check runs at other points)
    if !r_stopped {
        let eos = env.ctok.eos;
        let mut batches: Vec<Vec<u32>> = vec![vec![eos], vec![eos, eos]];
        for t in succ.iter().copied().filter(|t| *t != eos).take(3) {
            batches.push(vec![t, eos]);
            batches.push(vec![eos, t]);
            batches.push(vec![t, eos, t]);
            for u in succ.iter().copied().take(2) {
                batches.push(vec![t, u]);
            }
        }
        for b in batches {
            let m2 = unsafe { llg_clone_matcher(&*cm) };
            let mut r2 = rm.deep_clone();
            let c = unsafe { llg_matcher_consume_tokens(&mut *m2, b.as_ptr(), b.len()) };
            let r = r2.consume_tokens(&b);
            ctx.count("consume_tokens_batches", 1);
            let same = (c == 0) == r.is_ok() && unsafe { llg_matcher_is_stopped(&*m2) } == r2.is_stopped() && unsafe { llg_matcher_is_error(&*m2) } == r2.is_error() && unsafe { llg_matcher_is_accepting(&mut *m2) } == r2.is_accepting().unwrap_or(false);
            unsafe { llg_free_matcher(m2) };
            if !same {
                return Err(v("matcher_consume_tokens_batch", "ffi-result-differs", json!({"batch": b, "c_code": c, "rust_ok": r.is_ok(), "rust_stopped": r2.is_stopped(), "rust_error": r2.is_error()})));
            }
        }
    }
    // ---- llg_par_compute_mask on clones, every destination length
    let max_bytes = 2 * words * 4 + 8;
    for with_cb in [false, true] {
        let mut len = 0;
        while len <= max_bytes {
            let c2 = unsafe { llg_clone_constraint(&*cc) };
            // expected from a Rust clone in the same state (no mask computed yet in this state, so
            // the single stop step is exercised too)
            let mut r2 = rc.clone();
            let exp = r2.compute_mask().map(|r| (r.sample_mask.clone(), r.is_stop()));
            let n = len / 4;
            let mut buf = vec![0xC0FFEE11u32; n + 8];
            let step = LlgConstraintStep { constraint: c2, mask_dest: unsafe { buf.as_mut_ptr().add(4) }, mask_byte_len: len };
            let counter = AtomicU32::new(0);
            unsafe {
                if with_cb {
                    llg_par_compute_mask(&step, 1, &counter as *const AtomicU32 as *const c_void, Some(done_cb));
                    let t0 = std::time::Instant::now();
                    while counter.load(Ordering::SeqCst) == 0 {
                        std::thread::yield_now();
                        if t0.elapsed().as_secs() > 20 {
                            llg_free_constraint(c2);
                            return Err(v("par_callback_never_fired", "ffi-buffer", json!({"len": len})));
                        }
                    }
                } else {
                    llg_par_compute_mask(&step, 1, std::ptr::null(), None);
                }
            }
            ctx.count("par_compute_mask_calls", 1);
            let cerr = unsafe { llg_get_error(&*c2) };
            unsafe { llg_free_constraint(c2) };
            if buf[..4].iter().any(|x| *x != 0xC0FFEE11) || buf[n + 4..].iter().any(|x| *x != 0xC0FFEE11) {
                return Err(v("par_wrote_outside_buffer", "ffi-buffer", json!({"len": len, "buf": buf})));
            }
            let dest = &buf[4..4 + n];
            if let Ok((Some(rmask), rstop)) = &exp {
                if !cerr.is_null() {
                    return Err(v("par_error_but_rust_ok", "ffi-result-differs", json!({"len": len})));
                }
                let mw = rmask.as_slice();
                for i in 0..n {
                    let mut e = if i < mw.len() { mw[i] } else { 0 };
                    if *rstop && (env.ctok.eos as usize) / 32 == i {
                        e |= 1 << (env.ctok.eos % 32);
                    }
                    if dest[i] != e {
                        let poison = dest[i] == POISON_WORD;
                        return Err(v(
                            if poison { "par_read_past_mask" } else { "par_dest_content" },
                            if poison { "ffi-over-read" } else { "ffi-buffer" },
                            json!({"dest_bytes": len, "mask_words": mw.len(), "word": i, "got": format!("{:#x}", dest[i]), "expected": format!("{:#x}", e)}),
                        ));
                    }
                }
                for (w, x) in dest.iter().enumerate() {
                    for b in 0..32 {
                        if x & (1 << b) != 0 && w * 32 + b >= nv {
                            return Err(v("par_bit_above_vocab", "ffi-mask-bits", json!({"len": len, "bit": w * 32 + b})));
                        }
                    }
                }
            } else {
                // no sample mask (stop step) or an error: the whole caller buffer is zero-filled, with the
                // EOS bit alone at a stop; the buffer was handed over full of a non-zero pattern
                ctx.count("par_compute_mask_calls_without_sample_mask", 1);
                let stop = matches!(&exp, Ok((None, true)));
                for i in 0..n {
                    let mut e = 0u32;
                    if stop && (env.ctok.eos as usize) / 32 == i {
                        e |= 1 << (env.ctok.eos % 32);
                    }
                    if dest[i] != e {
                        return Err(v("par_dest_not_cleared", "ffi-buffer", json!({"dest_bytes": len, "word": i, "got": format!("{:#x}", dest[i]), "expected": format!("{:#x}", e), "rust_result": format!("{:?}", exp.as_ref().map(|x| x.1).map_err(|e| e.to_string()))})));
                    }
                }
            }
            len += 4;
        }
    }
    // ---- constraint interface (sampling loop)
    let mut res = LlgMaskResult { sample_mask: std::ptr::null(), temperature: 0.0, is_stop: false };
    let code = unsafe { llg_compute_mask(&mut *cc, &mut res) };
    let rres = rc.compute_mask().map(|r| (r.sample_mask.clone(), r.is_stop()));
    if (code == 0) != rres.is_ok() {
        return Err(v("constraint_compute_mask_code", "ffi-result-differs", json!({"c": code, "rust_ok": rres.is_ok()})));
    }
    if let Ok((rmask, rstop)) = &rres {
        if res.is_stop != *rstop {
            return Err(v("constraint_is_stop", "ffi-result-differs", json!({"c": res.is_stop, "rust": rstop})));
        }
        match rmask {
            Some(rm_) => {
                if res.sample_mask.is_null() {
                    return Err(v("constraint_mask_null", "ffi-result-differs", json!({})));
                }
                let got = unsafe { std::slice::from_raw_parts(res.sample_mask, rm_.as_slice().len()) };
                if got != rm_.as_slice() {
                    return Err(v("constraint_mask", "ffi-result-differs", json!({"c": got, "rust": rm_.as_slice()})));
                }
            }
            None => {
                if !res.sample_mask.is_null() {
                    return Err(v("constraint_mask_not_null", "ffi-result-differs", json!({})));
                }
            }
        }
        if unsafe { llg_is_stopped(&*cc) } != rc.step_result().is_stop() {
            return Err(v("constraint_is_stopped", "ffi-result-differs", json!({})));
        }
    }
    if BROKEN_REDZONES.load(Ordering::Relaxed) > 0 {
        return Err(v("heap_redzone_broken", "ffi-over-write", json!({"count": BROKEN_REDZONES.load(Ordering::Relaxed)})));
    }
    Ok(succ)
}

trait CloneForProbe {
    fn clone_for_probe(&self) -> *mut LlgMatcher;
}
impl CloneForProbe for LlgMatcher {
    fn clone_for_probe(&self) -> *mut LlgMatcher {
        llg_clone_matcher(self)
    }
}

fn explore_grammar(ctx: &Ctx, env: &Env, g: &(String, String), depth: usize) {
    let mut init: LlgConstraintInit = unsafe { std::mem::zeroed() };
    llg_constraint_init_set_defaults(&mut init, env.ctok.ptr);
    init.log_stderr_level = 0;
    init.log_buffer_level = 0;
    init.ff_tokens_ok = env.ff;
    let ctype = CString::new(g.0.clone()).unwrap();
    let cdata = CString::new(g.1.clone()).unwrap();
    let top = match TopLevelGrammar::from_tagged_str(&g.0, &g.1) {
        Ok(t) => t,
        Err(_) => return,
    };
    // histories: DFS with replay (C objects are cloned through the C API)
    struct Frame {
        hist: Vec<u32>,
    }
    let mut stack = vec![Frame { hist: vec![] }];
    let mut visited = 0u64;
    while let Some(fr) = stack.pop() {
        crate::watchdog::beat();
        if ctx.has_violations() {
            return;
        }
        // build all four objects fresh and replay
        let cc = unsafe { llg_new_constraint_any(&init, ctype.as_ptr(), cdata.as_ptr()) };
        let cm = unsafe { llg_new_matcher(&init, ctype.as_ptr(), cdata.as_ptr()) };
        let rp = env.factory.create_parser(top.clone());
        let rp2 = env.factory.create_parser(top.clone());
        let (Ok(rp), Ok(rp2)) = (rp, rp2) else {
            // the C side must report an error too
            let cerr = unsafe { llg_get_error(&*cc) };
            let merr = unsafe { llg_matcher_is_error(&*cm) };
            if cerr.is_null() || !merr {
                ctx.violation(viol("compile_error_only_in_rust", "ffi-result-differs", g, env.n_vocab, &[], json!({})));
            }
            unsafe {
                llg_free_constraint(cc);
                llg_free_matcher(cm);
            }
            return;
        };
        let mut rc = Constraint::new(rp);
        let mut rm = Matcher::new(Ok(rp2));
        let mut ok = true;
        // tokens the matchers have consumed (= the sampled tokens plus, with the ff capability, the
        // fast-forward tokens the constraint returned after them)
        let mut mhist: Vec<u32> = vec![];
        for t in fr.hist.iter() {
            // sampling loop: mask then commit
            let mut res = LlgMaskResult { sample_mask: std::ptr::null(), temperature: 0.0, is_stop: false };
            let c1 = unsafe { llg_compute_mask(&mut *cc, &mut res) };
            let r1 = rc.compute_mask().map(|r| r.is_stop());
            if (c1 == 0) != r1.is_ok() || (c1 == 0 && res.is_stop != *r1.as_ref().unwrap()) {
                ctx.violation(viol("replay_compute_mask", "ffi-result-differs", g, env.n_vocab, &fr.hist, json!({"token": t})));
                ok = false;
                break;
            }
            if res.is_stop {
                ok = false;
                break;
            }
            let mut cr = LlgCommitResult { tokens: std::ptr::null(), n_tokens: 0, is_stop: false };
            let c2 = unsafe { llg_commit_token(&mut *cc, *t, &mut cr) };
            let r2 = rc.commit_token(Some(*t));
            let same = match &r2 {
                Ok(r) => c2 == 0 && cr.is_stop == r.stop && cr.n_tokens as usize == r.ff_tokens.len() && (cr.n_tokens == 0 || unsafe { std::slice::from_raw_parts(cr.tokens, cr.n_tokens as usize) } == r.ff_tokens.as_slice()),
                Err(_) => c2 != 0,
            };
            if !same {
                ctx.violation(viol("commit_token", "ffi-result-differs", g, env.n_vocab, &fr.hist, json!({"token": t, "c_code": c2, "rust_ok": r2.is_ok()})));
                ok = false;
                break;
            }
            let to_matcher: Vec<u32> = match &r2 {
                Ok(r) if env.ff && !r.ff_tokens.is_empty() => {
                    if r.ff_tokens.len() > 1 {
                        ctx.count("commits_returning_ff_tokens", 1);
                    }
                    r.ff_tokens.clone()
                }
                _ => vec![*t],
            };
            for mt in to_matcher {
                let c3 = unsafe { llg_matcher_consume_token(&mut *cm, mt) };
                let r3 = rm.consume_token(mt);
                mhist.push(mt);
                if (c3 == 0) != r3.is_ok() {
                    ctx.violation(viol("matcher_consume_token", "ffi-result-differs", g, env.n_vocab, &fr.hist, json!({"token": mt})));
                    ok = false;
                    break;
                }
            }
            if !ok {
                break;
            }
            ctx.transitions.fetch_add(1, Ordering::Relaxed);
        }
        if ok {
            visited += 1;
            ctx.states.fetch_add(1, Ordering::Relaxed);
            ctx.validated.fetch_add(1, Ordering::Relaxed);
            match check_state(ctx, env, g, &mhist, cc, &mut rc, cm, &mut rm) {
                Ok(succ) => {
                    if fr.hist.len() < depth {
                        for t in succ.into_iter().take(6) {
                            let mut h = fr.hist.clone();
                            h.push(t);
                            stack.push(Frame { hist: h });
                        }
                    }
                }
                Err(v) => ctx.violation(v),
            }
        }
        unsafe {
            llg_free_constraint(cc);
            llg_free_matcher(cm);
        }
        if visited > 400 {
            ctx.count("grammar_state_cap_hit", 1);
            break;
        }
    }
    // illegal token id through the C API: error, no crash
    let cm = unsafe { llg_new_matcher(&init, ctype.as_ptr(), cdata.as_ptr()) };
    let c = unsafe { llg_matcher_consume_token(&mut *cm, env.n_vocab as u32 + 5) };
    if c == 0 {
        ctx.violation(viol("out_of_range_token_accepted", "ffi-result-differs", g, env.n_vocab, &[], json!({})));
    }
    unsafe { llg_free_matcher(cm) };
}


/// the C functions that write tokens or text into caller buffers: every buffer length from 0 to the needed
/// size + 2, between canaries, pre-filled with a pattern; returned count, written prefix, NUL terminator,
/// untouched tail and canaries are judged against the Rust objects
fn text_buffers(ctx: &Ctx, env: &Env, renv: &TokEnv) -> Result<(), Violation> {
    use toktrie::TokenizerEnv;
    let g = ("none".to_string(), "text buffers".to_string());
    let v = |check: &str, what: serde_json::Value| viol(check, "ffi-buffer", &g, env.n_vocab, &[], what);
    let trie = renv.tok_trie();
    const CAN: u32 = 0xC0FFEE11;
    const FILL: u32 = 0xA5A5A5A5;
    let texts: Vec<Vec<u8>> = vec![b"".to_vec(), b"a".to_vec(), b"abxx".to_vec(), b"{\"a\":12} ab".to_vec(), b"ab\xFF<eos>cd".to_vec(), b"\xFF[3]x".to_vec()];
    for text in texts.iter() {
        for marker in [false, true] {
            let exp: Vec<u32> = if marker { renv.tokenize_bytes_marker(text).0 } else if text.contains(&0xFF) { continue } else { renv.tokenize_bytes(text) };
            for out_len in 0..=exp.len() + 2 {
                let mut buf = vec![FILL; out_len + 4];
                buf[0] = CAN;
                buf[1] = CAN;
                buf[out_len + 2] = CAN;
                buf[out_len + 3] = CAN;
                let n = unsafe {
                    if marker {
                        llg_tokenize_bytes_marker(&*env.ctok.ptr, text.as_ptr(), text.len(), buf.as_mut_ptr().add(2), out_len)
                    } else {
                        llg_tokenize_bytes(&*env.ctok.ptr, text.as_ptr(), text.len(), buf.as_mut_ptr().add(2), out_len)
                    }
                };
                ctx.count("text_buffer_calls", 1);
                let k = exp.len().min(out_len);
                if n != exp.len() || buf[2..2 + k] != exp[..k] || buf[2 + k..2 + out_len].iter().any(|x| *x != FILL) || buf[0] != CAN || buf[1] != CAN || buf[out_len + 2] != CAN || buf[out_len + 3] != CAN {
                    return Err(v("tokenize_bytes_buffer", json!({"text": show(text), "marker": marker, "out_len": out_len, "returned": n, "expected": exp, "buffer": buf})));
                }
            }
            // null output: the count alone
            let n = unsafe { if marker { llg_tokenize_bytes_marker(&*env.ctok.ptr, text.as_ptr(), text.len(), std::ptr::null_mut(), 0) } else { llg_tokenize_bytes(&*env.ctok.ptr, text.as_ptr(), text.len(), std::ptr::null_mut(), 0) } };
            if n != exp.len() {
                return Err(v("tokenize_bytes_count", json!({"text": show(text), "marker": marker, "returned": n, "expected": exp.len()})));
            }
        }
    }
    let eos = env.ctok.eos;
    let lists: Vec<Vec<u32>> = vec![vec![], vec![0], vec![0, 1, 2], vec![0, eos, 1], vec![eos], (0..8u32).collect()];
    for toks in lists.iter() {
        for mode in 0..5u32 {
            // modes 0..3: llg_decode_tokens with these flags; mode 4: llg_stringify_tokens
            let exp: Vec<u8> = if mode == 4 {
                trie.tokens_dbg(toks).into_bytes()
            } else {
                let s = trie.decode_ext(toks, mode & 1 != 0);
                if mode & 2 != 0 { String::from_utf8_lossy(&s).to_string().into_bytes() } else { s }
            };
            for out_len in 0..=exp.len() + 3 {
                let mut buf = vec![0xA5u8; out_len + 8];
                for i in 0..4 {
                    buf[i] = 0xC1;
                    buf[out_len + 4 + i] = 0xC1;
                }
                let n = unsafe {
                    let out = buf.as_mut_ptr().add(4) as *mut std::os::raw::c_char;
                    if mode == 4 { llg_stringify_tokens(&*env.ctok.ptr, toks.as_ptr(), toks.len(), out, out_len) } else { llg_decode_tokens(&*env.ctok.ptr, toks.as_ptr(), toks.len(), out, out_len, mode) }
                };
                ctx.count("text_buffer_calls", 1);
                let body = &buf[4..4 + out_len];
                let mut ok = n == exp.len() + 1 && buf[..4].iter().all(|b| *b == 0xC1) && buf[out_len + 4..].iter().all(|b| *b == 0xC1);
                if out_len > 0 {
                    let k = exp.len().min(out_len - 1);
                    ok = ok && body[..k] == exp[..k] && body[k] == 0 && body[k + 1..].iter().all(|b| *b == 0xA5);
                } else {
                    ok = ok && body.iter().all(|b| *b == 0xA5);
                }
                if !ok {
                    return Err(v("decode_tokens_buffer", json!({"tokens": toks, "mode": mode, "out_len": out_len, "returned": n, "expected": show(&exp), "buffer": show(&buf)})));
                }
            }
        }
    }
    // error strings of a refused tokenizer: every error buffer length
    for err_len in 0..40usize {
        let lens: Vec<u32> = vec![1, 1];
        let bytes: Vec<u8> = vec![b'a', b'b'];
        let init = LlgTokenizerInit {
            vocab_size: 2,
            tok_eos: 1,
            token_lens: lens.as_ptr(),
            token_bytes: bytes.as_ptr(),
            tokenizer_json: std::ptr::null(),
            tokenize_assumes_string: false,
            tokenize_fn: None,
            use_approximate_greedy_tokenize_fn: false, // refused: no tokenize function at all
            tokenize_user_data: std::ptr::null(),
            slices: std::ptr::null(),
        };
        let mut buf = vec![0xA5u8; err_len + 8];
        for i in 0..4 {
            buf[i] = 0xC1;
            buf[err_len + 4 + i] = 0xC1;
        }
        let p = unsafe { llg_new_tokenizer(&init, buf.as_mut_ptr().add(4) as *mut std::os::raw::c_char, err_len) };
        ctx.count("text_buffer_calls", 1);
        if !p.is_null() {
            unsafe { llg_free_tokenizer(p) };
            return Err(v("invalid_tokenizer_accepted", json!({})));
        }
        let body = &buf[4..4 + err_len];
        let nul = body.iter().position(|b| *b == 0);
        let ok = buf[..4].iter().all(|b| *b == 0xC1) && buf[err_len + 4..].iter().all(|b| *b == 0xC1) && (err_len == 0 || nul.is_some()) && nul.map_or(true, |k| body[k + 1..].iter().all(|b| *b == 0xA5));
        if !ok {
            return Err(v("error_string_buffer", json!({"err_len": err_len, "buffer": show(&buf)})));
        }
    }
    Ok(())
}


/// Blind operation sequences over the C matcher wrapper (which keeps state of its own: the saved mask, the last
/// error): every sequence of <= `depth` operations from a menu of 8, executed from scratch on a fresh C matcher
/// and a fresh Rust `Matcher`; return codes, masks, flags compared after every operation.
fn c_opseq(ctx: &Ctx, env: &Env, g: &(String, String), depth: usize) {
    let mut init: LlgConstraintInit = unsafe { std::mem::zeroed() };
    llg_constraint_init_set_defaults(&mut init, env.ctok.ptr);
    init.log_stderr_level = 0;
    init.log_buffer_level = 0;
    let ctype = CString::new(g.0.clone()).unwrap();
    let cdata = CString::new(g.1.clone()).unwrap();
    let Ok(top) = TopLevelGrammar::from_tagged_str(&g.0, &g.1) else { return };
    const N_OPS: u8 = 8;
    let mut seq: Vec<u8> = vec![];
    // iterate over all sequences in length-lexicographic order
    let mut all: Vec<Vec<u8>> = vec![vec![]];
    let mut layer: Vec<Vec<u8>> = vec![vec![]];
    for _ in 0..depth {
        let mut next = vec![];
        for s in layer.iter() {
            for o in 0..N_OPS {
                let mut t = s.clone();
                t.push(o);
                next.push(t);
            }
        }
        all.extend(next.iter().cloned());
        layer = next;
    }
    let _ = &mut seq;
    let bsz = mask_words(env.n_vocab) * 4;
    for ops in all.iter().filter(|o| o.len() == depth) {
        crate::watchdog::beat();
        if ctx.has_violations() {
            return;
        }
        let cm = unsafe { llg_new_matcher(&init, ctype.as_ptr(), cdata.as_ptr()) };
        let Ok(rp) = env.factory.create_parser(top.clone()) else {
            unsafe { llg_free_matcher(cm) };
            return;
        };
        let mut rm = Matcher::new(Ok(rp));
        let mut n_hist = 0usize;
        let mut bad: Option<serde_json::Value> = None;
        for (k, op) in ops.iter().enumerate() {
            // tokens for the consume / validate operations come from a Rust clone (the subject is not disturbed)
            let allowed: Vec<u32> = rm.deep_clone().compute_mask_or_eos().map(|m| m.iter().collect()).unwrap_or_default();
            let mismatch = |what: &str, c: serde_json::Value, r: serde_json::Value| Some(json!({"ops": ops, "at": k, "op": op, "what": what, "c": c, "rust": r}));
            match op {
                0 | 6 => {
                    let rmk = rm.compute_mask_or_eos();
                    if *op == 0 {
                        let code = unsafe { llg_matcher_compute_mask(&mut *cm) };
                        if (code == 0) != rmk.is_ok() {
                            bad = mismatch("compute_mask code", json!(code), json!(rmk.is_ok()));
                        } else if let Ok(rmk) = &rmk {
                            let p = unsafe { llg_matcher_get_mask(&mut *cm) };
                            let n = unsafe { llg_matcher_get_mask_byte_size(&*cm) } / 4;
                            if p.is_null() || unsafe { std::slice::from_raw_parts(p, n) } != &rmk.as_slice()[..n] {
                                bad = mismatch("mask", json!(if p.is_null() { vec![] } else { unsafe { std::slice::from_raw_parts(p, n) }.to_vec() }), json!(&rmk.as_slice()[..n]));
                            }
                        }
                    } else {
                        let n = unsafe { llg_matcher_get_mask_byte_size(&*cm) } / 4;
                        let mut buf = vec![0xC0FFEE11u32; n + 2];
                        let code = unsafe { llg_matcher_compute_mask_into(&mut *cm, buf.as_mut_ptr().add(1), n * 4) };
                        if (code == 0) != rmk.is_ok() {
                            bad = mismatch("compute_mask_into code", json!(code), json!(rmk.is_ok()));
                        } else if let Ok(rmk) = &rmk {
                            if buf[1..1 + n] != rmk.as_slice()[..n] || buf[0] != 0xC0FFEE11 || buf[n + 1] != 0xC0FFEE11 {
                                bad = mismatch("mask_into", json!(buf), json!(&rmk.as_slice()[..n]));
                            }
                        }
                    }
                    let _ = bsz;
                }
                1 | 2 => {
                    let Some(t) = (if *op == 1 { allowed.first() } else { allowed.last() }) else { continue };
                    let code = unsafe { llg_matcher_consume_token(&mut *cm, *t) };
                    let r = rm.consume_token(*t);
                    if (code == 0) != r.is_ok() {
                        bad = mismatch("consume_token code", json!(code), json!(r.is_ok()));
                    }
                    if r.is_ok() {
                        n_hist += 1;
                    }
                }
                3 => {
                    if n_hist == 0 {
                        continue;
                    }
                    let code = unsafe { llg_matcher_rollback(&mut *cm, 1) };
                    let r = rm.rollback(1);
                    if (code == 0) != r.is_ok() {
                        bad = mismatch("rollback code", json!(code), json!(r.is_ok()));
                    }
                    if r.is_ok() {
                        n_hist -= 1;
                    }
                }
                4 => {
                    let code = unsafe { llg_matcher_reset(&mut *cm) };
                    let r = rm.reset();
                    if (code == 0) != r.is_ok() {
                        bad = mismatch("reset code", json!(code), json!(r.is_ok()));
                    }
                    if r.is_ok() {
                        n_hist = 0;
                    }
                }
                5 => {
                    let toks: Vec<u32> = allowed.iter().take(2).copied().collect();
                    let c = unsafe { llg_matcher_validate_tokens(&mut *cm, toks.as_ptr(), toks.len()) };
                    let r = rm.validate_tokens(&toks).map(|x| x as i32).unwrap_or(-1);
                    if c != r {
                        bad = mismatch("validate_tokens", json!(c), json!(r));
                    }
                }
                _ => {
                    let (ca, cs) = unsafe { (llg_matcher_is_accepting(&mut *cm), llg_matcher_is_stopped(&*cm)) };
                    let (ra, rs) = (rm.is_accepting().unwrap_or(false), rm.is_stopped());
                    if ca != ra || cs != rs {
                        bad = mismatch("accepting/stopped", json!([ca, cs]), json!([ra, rs]));
                    }
                }
            }
            if bad.is_none() && unsafe { llg_matcher_is_error(&*cm) } != rm.is_error() {
                bad = mismatch("is_error", json!(unsafe { llg_matcher_is_error(&*cm) }), json!(rm.is_error()));
            }
            if bad.is_some() {
                break;
            }
        }
        unsafe { llg_free_matcher(cm) };
        ctx.count("c_wrapper_op_sequences", 1);
        ctx.states.fetch_add(1, Ordering::Relaxed);
        ctx.transitions.fetch_add(ops.len() as u64, Ordering::Relaxed);
        if let Some(what) = bad {
            ctx.violation(viol("c_matcher_op_sequence", "ffi-result-differs", g, env.n_vocab, &[], what));
            return;
        }
    }
}


/// typed constructors and llg_validate_grammar at the root: the constraint built by llg_new_constraint_{regex,json,lark}
/// gives the Rust constraint's first mask; llg_validate_grammar agrees with compilation and respects its
/// message buffer at every length
fn typed_constructors(ctx: &Ctx, env: &Env, g: &(String, String)) -> Result<(), Violation> {
    let mut init: LlgConstraintInit = unsafe { std::mem::zeroed() };
    llg_constraint_init_set_defaults(&mut init, env.ctok.ptr);
    init.log_stderr_level = 0;
    init.log_buffer_level = 0;
    let ctype = CString::new(g.0.clone()).unwrap();
    let cdata = CString::new(g.1.clone()).unwrap();
    let v = |check: &str, what: serde_json::Value| viol(check, "ffi-result-differs", g, env.n_vocab, &[], what);
    let cc = match g.0.as_str() {
        "regex" => llg_new_constraint_regex(&init, cdata.as_ptr()),
        "json_schema" => llg_new_constraint_json(&init, cdata.as_ptr()),
        "lark" => llg_new_constraint_lark(&init, cdata.as_ptr()),
        _ => return Ok(()),
    };
    let top = TopLevelGrammar::from_tagged_str(&g.0, &g.1).map_err(|e| v("tagged_str", json!({"err": e.to_string()})))?;
    let rp = env.factory.create_parser(top);
    let cerr = unsafe { llg_get_error(&*cc) };
    let mut res = Ok(());
    match rp {
        Err(_) => {
            if cerr.is_null() {
                res = Err(v("typed_constructor_accepts_what_rust_refuses", json!({})));
            }
        }
        Ok(rp) => {
            let mut rc = Constraint::new(rp);
            let mut r = LlgMaskResult { sample_mask: std::ptr::null(), temperature: 0.0, is_stop: false };
            let code = unsafe { llg_compute_mask(&mut *cc, &mut r) };
            let rr = rc.compute_mask().map(|x| (x.sample_mask.clone(), x.is_stop()));
            let same = match &rr {
                Ok((Some(m), stop)) => code == 0 && r.is_stop == *stop && !r.sample_mask.is_null() && unsafe { std::slice::from_raw_parts(r.sample_mask, m.as_slice().len()) } == m.as_slice(),
                Ok((None, stop)) => code == 0 && r.is_stop == *stop,
                Err(_) => code != 0,
            };
            if !same {
                res = Err(v("typed_constructor_first_mask", json!({"code": code})));
            }
        }
    }
    unsafe { llg_free_constraint(cc) };
    res?;
    // validate_grammar: 0 for a grammar that compiles (1 = warnings), -1 otherwise; message buffer between canaries
    for (data, expect_ok) in [(g.1.clone(), true), ("start: \"a\" (".to_string(), false)] {
        let ty = if expect_ok { ctype.clone() } else { CString::new("lark").unwrap() };
        let cd = CString::new(data).unwrap();
        for len in [0usize, 1, 2, 8, 64] {
            let mut buf = vec![0xA5u8; len + 8];
            for i in 0..4 {
                buf[i] = 0xC1;
                buf[len + 4 + i] = 0xC1;
            }
            let code = unsafe { llg_validate_grammar(&init, ty.as_ptr(), cd.as_ptr(), buf.as_mut_ptr().add(4) as *mut std::os::raw::c_char, len) };
            ctx.count("text_buffer_calls", 1);
            let body = &buf[4..4 + len];
            let nul = body.iter().position(|b| *b == 0);
            let buf_ok = buf[..4].iter().all(|b| *b == 0xC1) && buf[len + 4..].iter().all(|b| *b == 0xC1) && (len == 0 || nul.is_some()) && nul.map_or(true, |k| body[k + 1..].iter().all(|b| *b == 0xA5));
            if (expect_ok && code < 0) || (!expect_ok && code >= 0) || !buf_ok {
                return Err(viol("validate_grammar", "ffi-buffer", g, env.n_vocab, &[], json!({"code": code, "expect_ok": expect_ok, "message_len": len, "buffer": show(&buf)})));
            }
        }
    }
    Ok(())
}

#[path = "c17b.rs"]
mod ext;

pub fn run(ctx: &Ctx) -> Coverage {
    ARMED.store(true, Ordering::SeqCst);
    let grammars: Vec<(String, String)> = vec![
        ("lark".into(), "start: \"a\" X \"c\" | \"b\" X \"d\"\nX: /x+/".into()),
        ("regex".into(), "ab+c?".into()),
        ("json_schema".into(), json!({"type": "object", "properties": {"a": {"type": "integer", "minimum": 0, "maximum": 9}}, "required": ["a"], "additionalProperties": false}).to_string()),
        ("lark".into(), "start: \"ab\" | \"a\"".into()),
        ("lark".into(), "start: /[ab]*/".into()),
    ];
    // grammars with long forced stretches (what a canonical tokenizer turns into forced / fast-forward tokens)
    let v2_grammars: Vec<(String, String)> = vec![
        ("lark".into(), "start: \"ab\" X \"cd\" | \"abx\" \"d\"\nX: /x*/".into()),
        ("json_schema".into(), json!({"type": "object", "properties": {"ab": {"enum": ["xx", "xc"]}, "c": {"const": 12}}, "required": ["ab", "c"], "additionalProperties": false}).to_string()),
    ];
    let sizes: Vec<usize> = if ctx.quick() { vec![31, 32, 33, 64, 65, 100] } else { vec![31, 32, 33, 63, 64, 65, 95, 96, 97, 100, 128, 129] };
    let depth = ctx.tier.pick(4, 6);
    // sequential over sizes: the C API's rayon pool is process-global
    for n in sizes {
        if ctx.over_budget() {
            ctx.count("sizes_skipped_budget", 1);
            continue;
        }
        let words = mk_words(n, b"abcdx{}\":0123456789 ", &["ab", "xx", "xc", "\"a\"", "\":", "{\"", "bc"]);
        let ctok = match new_c_tokenizer(&words) {
            Ok(c) => c,
            Err(e) => {
                ctx.machinery_error(format!("llg_new_tokenizer failed: {e}"));
                continue;
            }
        };
        let renv = rust_env(&words);
        let caps = InferenceCapabilities { ff_tokens: false, conditional_ff_tokens: false, backtrack: false, fork: false };
        let mut factory = ParserFactory::new(&renv, caps, &llguidance::earley::SlicedBiasComputer::general_slices()).unwrap();
        factory.quiet();
        let env = Env { ctok, factory, n_vocab: n, ff: false };
        if let Err(v) = text_buffers(ctx, &env, &renv) {
            ctx.violation(v);
        }
        if n == 33 || n == 64 {
            if let Err(v) = ext::misc_entry_points(ctx, &env) {
                ctx.violation(v);
            }
        }
        for g in grammars.iter() {
            if let Err(v) = typed_constructors(ctx, &env, g) {
                ctx.violation(v);
            }
            explore_grammar(ctx, &env, g, depth);
            if n == 33 || (n == 64 && !ctx.quick()) {
                c_opseq(ctx, &env, g, ctx.tier.pick(4, 5));
            }
        }
        let _ = &env.ctok.words;
        unsafe { llg_free_tokenizer(env.ctok.ptr) };
        ctx.count("vocab_sizes", 1);
        // ---- the same lock-step on a V2 tokenizer: caller-supplied tokenize_fn (canonical: forced tokens),
        // a second EOS token, fast-forward tokens on; thorough: also custom slices
        if (n == 33 || n == 65 || (!ctx.quick() && n == 96)) && !ctx.over_budget() && !ctx.has_violations() {
            let mut words = words.clone();
            words[n - 2] = b"\xFF<eos2>".to_vec();
            *VARIANT.lock().unwrap() = "v2-canonical-two-eos-ff";
            if let Err(v) = ext::tokenizer_v2_contract(ctx, &words) {
                ctx.violation(v);
            }
            let extra = [n as u32 - 2];
            let custom: [&str; 2] = ["[a-z]+", "[0-9x]{1,3}"];
            let variants: Vec<Option<&[&str]>> = if ctx.quick() { vec![None] } else { vec![None, Some(&custom)] };
            for sl in variants {
                let o = ext::V2Opts { extra_eos: &extra, canonical_cb: true, assumes_string: false, slices: sl, struct_size: std::mem::size_of::<LlgTokenizerInitV2>() };
                let ctok = match ext::new_c_tokenizer_v2(&words, &o) {
                    Ok(c) => c,
                    Err(e) => {
                        ctx.machinery_error(format!("llg_new_tokenizer_v2 failed: {e}"));
                        continue;
                    }
                };
                let renv = crate::vocab::VocabSpec { name: "c17v2".into(), tokens: words.clone(), eos: n as u32 - 1, extra_eos: vec![n as u32 - 2], canonical: true }.build();
                let caps = InferenceCapabilities { ff_tokens: true, conditional_ff_tokens: false, backtrack: false, fork: false };
                let rslices: Vec<String> = match sl {
                    None => llguidance::earley::SlicedBiasComputer::general_slices(),
                    Some(s) => s.iter().map(|x| x.to_string()).collect(),
                };
                let mut factory = ParserFactory::new(&renv, caps, &rslices).unwrap();
                factory.quiet();
                let env = Env { ctok, factory, n_vocab: n, ff: true };
                if let Err(v) = text_buffers(ctx, &env, &renv) {
                    ctx.violation(v);
                }
                if let Err(v) = ext::misc_entry_points(ctx, &env) {
                    ctx.violation(v);
                }
                for g in grammars.iter().chain(v2_grammars.iter()) {
                    explore_grammar(ctx, &env, g, depth);
                    if n == 33 {
                        c_opseq(ctx, &env, g, ctx.tier.pick(3, 4));
                    }
                }
                unsafe { llg_free_tokenizer(env.ctok.ptr) };
                ctx.count("v2_tokenizer_envs", 1);
            }
            *VARIANT.lock().unwrap() = "v1";
        }
    }
    if !ctx.has_violations() {
        *VARIANT.lock().unwrap() = "stop-vocabulary";
        ext::stop_controller_wrappers(ctx, ctx.tier.pick(3, 4));
        *VARIANT.lock().unwrap() = "v1";
    }
    ARMED.store(false, Ordering::SeqCst);
    ctx.sample(json!({"grammar": grammars[0], "vocab_size": 100, "dest_lengths": "0,4,...,2*mask+8", "history": "[a, x]"}));
    if ctx.get_count("par_compute_mask_calls") == 0 {
        ctx.machinery_error("vacuous run: llg_par_compute_mask never called");
    }
    Coverage::StateGraph {
        rule: format!("extern \"C\" functions called from Rust in lock-step with the Rust Constraint/Matcher over all histories to depth {depth} (<= 6 successors per state) on 5 grammars and vocabulary sizes around multiples of 32; every sequence of 4 (thorough: 5) operations out of 8 on the C matcher wrapper executed blind on fresh objects (vocabulary size 33; thorough also 64); masks, commit results, validation counts, rollback, reset + consume_tokens(history), ff tokens compared; llg_matcher_compute_mask_into with exact and short lengths between canaries; llg_par_compute_mask with every destination length 0,4,..,2*mask+8, with and without callback, destination between canaries, llg_tokenize_bytes(_marker), llg_decode_tokens (all flag combinations), llg_stringify_tokens and the error string of a refused llg_new_tokenizer with every output length from 0 to the needed size + 2 between canaries (count, prefix, NUL, untouched tail); llg_new_constraint_regex|json|lark and llg_validate_grammar at the root; the whole lock-step repeated on llg_new_tokenizer_v2 tokenizers (caller tokenize_fn = canonical tokenizer with forced tokens, a second EOS, ff_tokens_ok on both sides so that llg_commit_token returns fast-forward tokens, thorough: custom slices; struct_size prefix copy, refusals); llg_clone_tokenizer; llg_new_constraint on the serialized grammar with temperature= attributes (mask-result temperature and llg_get_temperature along all histories to depth 4); llg_matcher_get_error (null while healthy, stable pointer, Rust's text); llg_flush_logs, llg_get_version; stop-controller wrappers (llg_new/clone/free_stop_controller, llg_stop_commit_token) against the Rust StopController on every token sequence of length <= 3 (thorough 4) over C18's 17-token vocabulary for 11 configurations (text, length, NUL, stopped flag); all heap blocks followed by a poisoned red zone (over-read shows as poison words, over-write as a broken zone)"),
    }
}
