//! C05 — a Lark CFG admits exactly the grammar's language (product with a reference Earley
//! recogniser on the harness's own grammar representation, incl. parametric grammars).
use crate::common::*;
use crate::engine::*;
use crate::explore::*;
use crate::gen;
use crate::refs::cfg_earley::*;
use crate::vocab::{self, VocabSpec};
use llguidance::Matcher;
use rayon::prelude::*;
use serde_json::json;
use std::collections::{HashSet, VecDeque};
use std::sync::atomic::Ordering;

pub fn c05_vocab(alpha: &[u8], multi: &[&str]) -> VocabSpec {
    let mut v = vocab::bytes_vocab(alpha);
    v.tokens.pop();
    for m in multi {
        v.tokens.push(m.as_bytes().to_vec());
    }
    v.tokens.push(vocab::EOS_BYTES.to_vec());
    v.eos = v.tokens.len() as u32 - 1;
    v.name = format!("CFG({})", v.tokens.len());
    v
}

pub struct CfgOut {
    pub states: u64,
    pub transitions: u64,
    pub closure: bool,
    pub violation: Option<Violation>,
    pub refused: Option<String>,
    pub outcomes: Vec<u64>,
    pub multibyte_allowed: u64,
    pub max_depth: usize,
}

fn viol(name: &str, g: &GrammarSpec, vocab: &VocabSpec, check: &str, class: &str, hist: &[u32], what: serde_json::Value) -> Violation {
    let text: Vec<u8> = hist.iter().flat_map(|t| vocab.tokens[*t as usize].clone()).collect();
    Violation {
        check: check.to_string(),
        class: class.to_string(),
        signature: format!("{}|{}|{}|{}", check, name, g.short(), show(&text)),
        detail: json!({
            "kind": "engine_history",
            "grammar": g.to_json(),
            "vocab": vocab.to_json(),
            "slices": "none",
            "history": hist,
            "text_so_far": show(&text),
            "what": what,
        }),
    }
}

pub fn product_cfg(name: &str, g: &GrammarSpec, bnf: &Bnf, f: &Factory, vocab: &VocabSpec, max_depth: usize, max_states: usize) -> CfgOut {
    let mut out = CfgOut { states: 0, transitions: 0, closure: false, violation: None, refused: None, outcomes: vec![], multibyte_allowed: 0, max_depth: 0 };
    let root = match f.try_matcher(g) {
        Ok(m) => m,
        Err(e) => {
            out.refused = Some(e);
            return out;
        }
    };
    let ear = Earley::new(bnf);
    let trie = f.env.tok_trie();
    let nv = f.n_vocab as u32;
    let eos = trie.eos_token();
    struct N {
        m: Matcher,
        c: Chart,
        hist: Vec<u32>,
        bytes: usize,
    }
    let c0 = ear.start();
    let mut seen: HashSet<(u128, u64)> = HashSet::new();
    seen.insert((state_key(&root), ear.key(&c0)));
    let mut queue = VecDeque::new();
    queue.push_back(N { m: root, c: c0, hist: vec![], bytes: 0 });
    let mut truncated = false;
    while let Some(mut n) = queue.pop_front() {
        crate::watchdog::beat();
        out.states += 1;
        out.max_depth = out.max_depth.max(n.bytes);
        if n.m.is_error() {
            out.violation = Some(viol(name, g, vocab, "engine_error", "cfg-engine-error", &n.hist, json!({"err": n.m.get_error()})));
            return out;
        }
        let ref_acc = ear.accepting(&n.c);
        if n.m.is_stopped() {
            if !(ref_acc && !ear.can_extend(&n.c)) {
                out.violation = Some(viol(name, g, vocab, "stopped_wrongly", "cfg-complete-mismatch", &n.hist, json!({"ref_accepting": ref_acc, "ref_can_extend": ear.can_extend(&n.c)})));
                return out;
            }
            continue;
        }
        let acc = n.m.is_accepting().unwrap_or(false);
        if acc != ref_acc {
            out.violation = Some(viol(name, g, vocab, "accepting_vs_derives", "cfg-complete-mismatch", &n.hist, json!({"engine_accepting": acc, "reference_derives": ref_acc})));
            return out;
        }
        let mask = match n.m.compute_mask() {
            Ok(m) => Some(m),
            Err(e) => {
                if crate::props::c01::is_resource_limit(&e.to_string()) {
                    out.refused = Some(e.to_string());
                    return out;
                }
                None
            }
        };
        out.outcomes.push(mask.as_ref().map(|m| mask_hash(m)).unwrap_or(7) ^ acc as u64);
        for t in 0..nv {
            if t == eos {
                continue;
            }
            let bytes = trie.token(t);
            if bytes.is_empty() || bytes[0] == 0xFF {
                continue;
            }
            let c2 = ear.run(&n.c, bytes);
            let allowed = mask.as_ref().map(|m| m.is_allowed(t)).unwrap_or(false);
            if allowed != c2.is_some() {
                out.violation = Some(viol(name, g, vocab, "token_vs_viable_prefix", if allowed { "cfg-allows-dead-prefix" } else { "cfg-rejects-viable-prefix" }, &n.hist,
                    json!({"token": t, "token_bytes": show(bytes), "engine_allows": allowed, "reference_viable": c2.is_some()})));
                return out;
            }
            if let Some(c2) = c2 {
                if bytes.len() >= 2 {
                    out.multibyte_allowed += 1;
                }
                if n.bytes + bytes.len() > max_depth {
                    truncated = true;
                    continue;
                }
                let mut m2 = n.m.clone();
                out.transitions += 1;
                if let Err(e) = m2.consume_token(t) {
                    out.violation = Some(viol(name, g, vocab, "commit_failed", "cfg-engine-error", &n.hist, json!({"token": t, "err": e.to_string()})));
                    return out;
                }
                let k = (state_key(&m2), ear.key(&c2));
                if seen.insert(k) {
                    if seen.len() > max_states {
                        truncated = true;
                        continue;
                    }
                    let mut h = n.hist.clone();
                    h.push(t);
                    queue.push_back(N { m: m2, c: c2, hist: h, bytes: n.bytes + bytes.len() });
                }
            }
        }
    }
    out.closure = !truncated;
    out
}

pub fn run(ctx: &Ctx) -> Coverage {
    let size = ctx.tier.pick(4, 5);
    let depth = ctx.tier.pick(8, 14);
    let max_states = ctx.tier.pick(1500, 20000);
    let grams: Vec<gen::Gram> = gen::grams(size).into_iter().filter(|g| g.fully_productive()).collect();
    let vocab = c05_vocab(b"abcdex", &["bc", "ab", "ca", "dd", "de", "abc", "bca", "aa", "cb", "ea", "cbc"]);
    ctx.note(format!("{} productive generated grammars of size <= {}", grams.len(), size));
    grams.par_iter().enumerate().for_each(|(i, g)| {
        if ctx.over_budget() {
            ctx.count("jobs_skipped_budget", 1);
            return;
        }
        let f = Factory::new(&vocab, &Slices::None).unwrap();
        let spec = GrammarSpec::Lark(g.lark());
        let bnf = Bnf::from_gram(g);
        let out = product_cfg(&format!("gen{i}"), &spec, &bnf, &f, &vocab, depth, max_states);
        absorb(ctx, &spec, out);
    });
    // two repetition expressions over the same named rule (cooperating sites: shared caches)
    let reps: Vec<gen::G> = {
        let r = || Box::new(gen::G::Ref(1));
        let mut v = vec![];
        for (m, n) in [(0u32, 1u32), (0, 2), (1, 1), (1, 2), (2, 2), (0, 3), (1, 3), (2, 3), (3, 3)] {
            v.push(gen::G::Rep(r(), m, n));
        }
        v.push(gen::G::Star(r()));
        v.push(gen::G::Plus(r()));
        v.push(gen::G::Opt(r()));
        v.push(gen::G::Seq(Box::new(gen::G::Rep(r(), 2, 2)), Box::new(gen::G::Star(r()))));
        v
    };
    let mut pairs: Vec<gen::Gram> = vec![];
    for a in reps.iter() {
        for b in reps.iter() {
            for body in [gen::G::Lit(b"bc".to_vec()), gen::G::Class(b"de".to_vec())] {
                let start = gen::G::Seq(Box::new(gen::G::Seq(Box::new(a.clone()), Box::new(gen::G::Lit(b"a".to_vec())))), Box::new(b.clone()));
                pairs.push(gen::Gram { rules: vec![start, body] });
            }
        }
    }
    ctx.count("repetition_pair_grammars", pairs.len() as u64);
    pairs.par_iter().enumerate().for_each(|(i, g)| {
        if ctx.over_budget() {
            ctx.count("jobs_skipped_budget", 1);
            return;
        }
        let f = Factory::new(&vocab, &Slices::None).unwrap();
        let spec = GrammarSpec::Lark(g.lark());
        let bnf = Bnf::from_gram(g);
        let out = product_cfg(&format!("reppair{i}"), &spec, &bnf, &f, &vocab, ctx.tier.pick(12, 16), max_states);
        absorb(ctx, &spec, out);
    });
    // parametric grammars
    let n_hand = parametric_grammars().len();
    let mut pg = parametric_grammars();
    pg.extend(generated_parametric());
    ctx.count("generated_parametric_grammars", (pg.len() - n_hand) as u64);
    let pvocab = c05_vocab(b"abcdefpq!x", &["ab", "ba", "aa", "abc", "cd", "bb", "ca", "bp", "cq", "pb", "pc", "ae", "af", "pq", "aep", "dq", "b!", "aa!"]);
    pg.par_iter().for_each(|p| {
        let f = Factory::new(&pvocab, &Slices::None).unwrap();
        let spec = GrammarSpec::Lark(p.lark.clone());
        let out = product_cfg(p.name, &spec, &p.bnf, &f, &pvocab, ctx.tier.pick(10, 16), max_states * 4);
        if out.refused.is_some() && !p.name.starts_with("genp-") {
            ctx.machinery_error(format!("parametric grammar {} refused: {:?}\n{}", p.name, out.refused, p.lark));
        }
        ctx.count("parametric_grammars", 1);
        absorb(ctx, &spec, out);
    });
    if ctx.get_count("products_closed") == 0 || ctx.get_count("multibyte_tokens_allowed") == 0 {
        ctx.machinery_error("vacuous run: no closed product or no multi-byte token allowed");
    }
    Coverage::StateGraph {
        rule: format!("every fully productive Lark grammar with <= {size} AST nodes over terminals \"a\", \"bc\", /[de]/ (one or two rules, recursion allowed) plus 7 hand-written parametric grammars and a generated parametric family (one callee reached with two different parameter values from the same Earley set — in two alternatives, in sequence, behind an ambiguous prefix — with every 2- and 3-subset of a menu of guarded callee alternatives, and left-recursive counting); BFS over the product (real engine state, reference Earley chart) to {depth} bytes with pair-key dedup over a vocabulary of single bytes and multi-byte tokens; accepting flag and every token compared in every product state; products_closed counts complete (all lengths) results"),
    }
}

fn absorb(ctx: &Ctx, spec: &GrammarSpec, out: CfgOut) {
    ctx.count("jobs_run", 1);
    if let Some(e) = out.refused {
        ctx.count("refused_by_front_end", 1);
        if ctx.get_count("refused_by_front_end") <= 5 {
            ctx.note(format!("refused: {} -> {}", spec.short(), e.lines().next().unwrap_or("")));
        }
        return;
    }
    ctx.states.fetch_add(out.states, Ordering::Relaxed);
    ctx.transitions.fetch_add(out.transitions, Ordering::Relaxed);
    ctx.validated.fetch_add(out.transitions, Ordering::Relaxed);
    ctx.outcomes_extend(out.outcomes);
    ctx.count("multibyte_tokens_allowed", out.multibyte_allowed);
    ctx.count_max("max_bytes_depth", out.max_depth as u64);
    if out.closure {
        ctx.count("products_closed", 1);
    } else if out.violation.is_none() {
        ctx.count("products_depth_or_state_bounded", 1);
    }
    if let Some(v) = out.violation {
        ctx.violation(v);
    }
    ctx.sample(json!({"grammar": spec.short()}));
}
