//! C13 — fast-forward bytes and tokens are genuinely forced and change nothing.
use crate::common::*;
use crate::corpus;
use crate::engine::*;
use crate::explore::*;
use crate::jobs::*;
use crate::vocab::{self, VocabSpec};
use serde_json::json;
use std::collections::{BTreeMap, BTreeSet, HashSet};
use std::sync::atomic::Ordering;

fn viol(job: &Job, check: &str, class: &str, hist: &[u32], what: serde_json::Value, sig: &str) -> Violation {
    Violation {
        check: check.to_string(),
        class: class.to_string(),
        signature: format!("{}|{}|{}|{:?}|{}", check, job.item.name, job.vocab.name, hist, sig),
        detail: json!({
            "kind": "engine_history",
            "grammar": job.item.g.to_json(),
            "vocab": job.vocab.to_json(),
            "slices": "default",
            "history": hist,
            "history_bytes": hist.iter().map(|t| show(&job.vocab.tokens[*t as usize])).collect::<Vec<_>>(),
            "what": what,
        }),
    }
}

fn byte_vocab_for(v: &VocabSpec) -> VocabSpec {
    let mut bs: BTreeSet<u8> = BTreeSet::new();
    for t in v.tokens.iter() {
        if t.first() != Some(&0xFF) {
            bs.extend(t.iter().copied());
        }
    }
    vocab::bytes_vocab(&bs.into_iter().collect::<Vec<_>>())
}

fn c13_items() -> Vec<corpus::Item> {
    let mut items = corpus::all_items();
    let extra = vec![
        ("ff-keys", json!({"type":"object","properties":{"first_name":{"type":"string","maxLength":2},"first_nick":{"type":"boolean"}},"required":["first_name","first_nick"],"additionalProperties":false}), vec!["{\"first_name\":\"ab\",\"first_nick\":true}"]),
        ("ff-const", json!({"type":"object","properties":{"kind":{"const":"alpha"},"v":{"enum":["alpine","alps"]}},"required":["kind","v"],"additionalProperties":false}), vec!["{\"kind\":\"alpha\",\"v\":\"alps\"}"]),
        ("ff-arr", json!({"type":"array","prefixItems":[{"const":"ab"},{"const":"ab"}],"minItems":2,"maxItems":2}), vec!["[\"ab\",\"ab\"]"]),
    ];
    for (n, v, s) in extra {
        items.push(corpus::Item { name: n.to_string(), g: GrammarSpec::Json(v), sentences: s.iter().map(|x| x.as_bytes().to_vec()).collect(), core: true });
    }
    let larks = vec![
        ("ff-long", "start: \"SELECT \" COL \" FROM tbl\"\nCOL: /[ab]{1,2}/", vec!["SELECT ab FROM tbl"]),
        ("ff-branch", "start: \"abc\" (\"def\" | \"dxy\") \"!\"", vec!["abcdef!", "abcdxy!"]),
    ];
    for (n, g, s) in larks {
        items.push(corpus::Item { name: n.to_string(), g: GrammarSpec::Lark(g.to_string()), sentences: s.iter().map(|x| x.as_bytes().to_vec()).collect(), core: true });
    }
    items
}

struct Out {
    stats: ExploreStats,
    counters: BTreeMap<String, u64>,
    outcomes: HashSet<u64>,
    violation: Option<Violation>,
    inadmissible: bool,
}

fn run_job(job: &Job, cfg: &ExploreCfg) -> Out {
    let mut out = Out { stats: ExploreStats::default(), counters: BTreeMap::new(), outcomes: HashSet::new(), violation: None, inadmissible: false };
    let bv = byte_vocab_for(&job.vocab);
    let (Ok(fv), Ok(fb)) = (Factory::new(&job.vocab, &Slices::Default), Factory::new(&bv, &Slices::None)) else {
        out.inadmissible = true;
        return out;
    };
    let (Ok(rv), Ok(rb)) = (fv.try_matcher(&job.item.g), fb.try_matcher(&job.item.g)) else {
        out.inadmissible = true;
        return out;
    };
    let trie_v = fv.env.tok_trie();
    let trie_b = fb.env.tok_trie();
    let nv = fv.n_vocab as u32;
    let eos_v = trie_v.eos_token();
    let eos_b = trie_b.eos_token();
    let byte_tok = |b: u8| trie_b.token_id(&[b]);
    let mut violation = None;
    let mut inadmissible = false;
    let mut cnt: BTreeMap<String, u64> = BTreeMap::new();
    let mut outcomes = HashSet::new();
    let stats = explore_pair(rv, rb, cfg, |a, b, hist, _d| {
        let mut c = |k: &str, n: u64| *cnt.entry(k.to_string()).or_insert(0) += n;
        if a.is_stopped() || b.is_stopped() {
            return Some(vec![]);
        }
        let f_bytes = a.clone().compute_ff_bytes();
        let f_toks = a.clone().compute_ff_tokens();
        if f_bytes.iter().any(|x| *x == 0xFF || byte_tok(*x).is_none()) {
            inadmissible = true;
            return None;
        }
        // (1) every forced byte is the only byte allowed at its position
        if !f_bytes.is_empty() {
            c("states_with_forced_bytes", 1);
            c("forced_bytes_checked", f_bytes.len() as u64);
            let mut r = b.clone();
            for (i, fbyte) in f_bytes.iter().enumerate() {
                let mk = match r.compute_mask() {
                    Ok(m) => m,
                    Err(e) => {
                        if crate::props::c01::is_resource_limit(&e.to_string()) {
                            inadmissible = true;
                            return None;
                        }
                        violation = Some(viol(job, "forced_byte_ref_dead", "forced-byte-not-forced", hist, json!({"forced": show(&f_bytes), "pos": i, "err": e.to_string()}), ""));
                        return None;
                    }
                };
                let allowed: Vec<u32> = mask_to_vec(&mk);
                let expect = vec![byte_tok(*fbyte).unwrap()];
                if allowed != expect {
                    violation = Some(viol(job, "forced_byte_not_unique", "forced-byte-not-forced", hist,
                        json!({"forced": show(&f_bytes), "pos": i, "reference_allows": allowed.iter().map(|t| show(trie_b.token(*t))).collect::<Vec<_>>()}), ""));
                    return None;
                }
                if r.consume_token(expect[0]).is_err() {
                    violation = Some(viol(job, "forced_byte_rejected", "forced-byte-not-forced", hist, json!({"forced": show(&f_bytes), "pos": i}), ""));
                    return None;
                }
            }
        }
        // (2) ff tokens decode to a prefix of the forced bytes, commit, and leave the rest pending
        if !f_toks.is_empty() {
            c("states_with_ff_tokens", 1);
            let dec = trie_v.decode_raw(&f_toks);
            if !f_bytes.starts_with(&dec) {
                violation = Some(viol(job, "ff_tokens_not_prefix", "ff-tokens-wrong", hist, json!({"ff_tokens": f_toks, "decoded": show(&dec), "forced": show(&f_bytes)}), ""));
                return None;
            }
            let mut cl = a.clone();
            if let Err(e) = cl.consume_tokens(&f_toks) {
                violation = Some(viol(job, "ff_tokens_rejected", "ff-tokens-wrong", hist, json!({"ff_tokens": f_toks, "err": e.to_string()}), ""));
                return None;
            }
            let rest = cl.compute_ff_bytes();
            if !cl.is_stopped() && rest != f_bytes[dec.len()..] {
                violation = Some(viol(job, "ff_rest_differs", "ff-tokens-wrong", hist, json!({"ff_tokens": f_toks, "rest": show(&rest), "expected_rest": show(&f_bytes[dec.len()..])}), ""));
                return None;
            }
            // consume_ff_tokens gives the same
            let mut cl2 = a.clone();
            let got = cl2.consume_ff_tokens();
            if got != f_toks {
                violation = Some(viol(job, "consume_ff_differs", "ff-tokens-wrong", hist, json!({"compute": f_toks, "consume": got}), ""));
                return None;
            }
        }
        // (3) mask soundness against the byte reference; successors
        let ma = match a.compute_mask() {
            Ok(m) => m,
            Err(e) => {
                if crate::props::c01::is_resource_limit(&e.to_string()) {
                    inadmissible = true;
                    return None;
                }
                return Some(vec![]);
            }
        };
        let mut succ = vec![];
        let mut scratch = b.clone();
        for t in mask_to_vec(&ma) {
            if t == eos_v {
                if !b.clone().is_accepting().unwrap_or(false) {
                    violation = Some(viol(job, "eos_but_ref_not_accepting", "mask-unsound-vs-bytes", hist, json!({}), ""));
                    return None;
                }
                succ.push((t, vec![eos_b]));
                continue;
            }
            let bytes = trie_v.token(t);
            if t >= nv || bytes.is_empty() || bytes[0] == 0xFF {
                continue;
            }
            let Some(bs) = bytes.iter().map(|x| byte_tok(*x)).collect::<Option<Vec<u32>>>() else { continue };
            let n = scratch.validate_tokens(&bs).unwrap_or(usize::MAX);
            if n != bs.len() {
                violation = Some(viol(job, "mask_token_vs_bytes", "mask-unsound-vs-bytes", hist, json!({"token": t, "bytes": show(bytes), "validated": n}), &format!("t{t}")));
                return None;
            }
            succ.push((t, bs));
        }
        outcomes.insert(fnv(&f_bytes) ^ mask_hash(&ma));
        Some(succ)
    });
    if violation.is_none() && !inadmissible {
        if let Some((h, t, e)) = stats.failed_commits.first() {
            if crate::props::c01::is_resource_limit(e) {
                inadmissible = true;
            } else {
                violation = Some(viol(job, "pair_commit_failed", "mask-unsound-vs-bytes", h, json!({"token": t, "err": e}), &format!("t{t}")));
            }
        }
    }
    out.stats = stats;
    out.counters = cnt;
    out.outcomes = outcomes;
    out.violation = violation;
    out.inadmissible = inadmissible;
    out
}

/// prompt processing: decode(returned prompt) ++ pending forced text == decode(prompt) ++ forced bytes
fn run_prompt_job(job: &Job, cnt: &mut BTreeMap<String, u64>) -> Option<Violation> {
    let Ok(f) = Factory::new(&job.vocab, &Slices::Default) else { return None };
    let trie = f.env.tok_trie();
    let nv = f.n_vocab as u32;
    let Ok(mut base) = f.factory.create_parser(job.item.g.top()) else { return None };
    let g_forced = {
        let mut p = base.deep_clone();
        p.start_without_prompt();
        p.force_bytes()
    };
    if g_forced.iter().any(|x| *x == 0xFF || trie.token_id(&[*x]).is_none()) {
        return None;
    }
    let ordinary: Vec<u32> = (0..nv).filter(|t| {
        let b = trie.token(*t);
        !b.is_empty() && b[0] != 0xFF && *t != trie.eos_token()
    }).collect();
    let mut prompts: Vec<Vec<u32>> = vec![vec![]];
    for &a in ordinary.iter() {
        prompts.push(vec![a]);
    }
    let lim = if ordinary.len() <= 40 { ordinary.len() } else { 20 };
    for &a in ordinary.iter().take(lim) {
        for &b in ordinary.iter().take(lim) {
            prompts.push(vec![a, b]);
        }
    }
    let _ = &mut base;
    for p in prompts {
        // the prompt must be what the canonical tokenizer would produce for its text
        let text = trie.decode_raw(&p);
        if f.env.tokenize_bytes(&text) != p {
            *cnt.entry("prompts_noncanonical_skipped".into()).or_insert(0) += 1;
            continue;
        }
        let Ok(mut tp) = f.factory.create_parser(job.item.g.top()) else { return None };
        let res = match guarded(|| tp.process_prompt(p.clone())) {
            Ok(r) => r,
            Err(e) => {
                return Some(viol(job, "process_prompt_panic", "prompt-text-changed", &p, json!({"panic": e}), ""));
            }
        };
        let pending = tp.force_bytes();
        let mut lhs = trie.decode_raw(&res);
        lhs.extend_from_slice(&pending);
        let mut rhs = text.clone();
        rhs.extend_from_slice(&g_forced);
        *cnt.entry("prompts_checked".into()).or_insert(0) += 1;
        if res != p {
            *cnt.entry("prompts_healed".into()).or_insert(0) += 1;
        }
        if lhs != rhs {
            return Some(viol(job, "prompt_text", "prompt-text-changed", &p,
                json!({"prompt": show(&text), "returned": show(&trie.decode_raw(&res)), "pending": show(&pending), "grammar_forced": show(&g_forced)}), ""));
        }
    }
    None
}


/// Sampling loop with the ff_tokens capability: a `Constraint` from a factory with ff_tokens on,
/// in lock step with a plain `Matcher` (ff_tokens off) that is fed every token the constraint
/// reports. In every state: same stop status, same mask; the tokens `commit_token` returns are the
/// sampled token followed by tokens that decode to a prefix of the bytes forced after it, and the
/// matcher accepts each of them.
fn constraint_ff_job(job: &Job, depth: usize, max_nodes: u64) -> (u64, u64, u64, Option<Violation>) {
    use llguidance::{Constraint, Matcher};
    let (Ok(ff), Ok(fm)) = (Factory::with_ff_tokens(&job.vocab, &Slices::Default), Factory::new(&job.vocab, &Slices::Default)) else { return (0, 0, 0, None) };
    let Ok(tp) = ff.factory.create_parser(job.item.g.top()) else { return (0, 0, 0, None) };
    let Ok(m0) = fm.try_matcher(&job.item.g) else { return (0, 0, 0, None) };
    let c0 = Constraint::new(tp);
    let mut nodes = 0u64;
    let mut trans = 0u64;
    let mut spliced = 0u64;
    let mut stack: Vec<(Constraint, Matcher, Vec<u32>)> = vec![(c0, m0, vec![])];
    let mk = |check: &str, hist: &[u32], what: serde_json::Value| viol(job, check, "sampling-loop-ff-tokens-differ", hist, what, "");
    while let Some((mut c, mut m, hist)) = stack.pop() {
        crate::watchdog::beat();
        nodes += 1;
        if nodes > max_nodes {
            break;
        }
        let r = match c.compute_mask() {
            Ok(r) => r.clone(),
            Err(e) => {
                let s = e.to_string();
                if crate::props::c01::is_resource_limit(&s) {
                    return (nodes, trans, spliced, None);
                }
                return (nodes, trans, spliced, Some(mk("constraint_mask_error", &hist, json!({"err": s}))));
            }
        };
        if r.is_stop() {
            if !m.is_stopped() && !m.clone().is_accepting().unwrap_or(false) {
                return (nodes, trans, spliced, Some(mk("constraint_stops_matcher_does_not", &hist, json!({}))));
            }
            continue;
        }
        let Some(cm) = r.sample_mask.as_ref() else {
            return (nodes, trans, spliced, Some(mk("unconditional_splice_from_compute_mask", &hist, json!({"note": "compute_mask returned neither a mask nor a stop"}))));
        };
        if m.is_stopped() {
            return (nodes, trans, spliced, Some(mk("matcher_stopped_constraint_not", &hist, json!({}))));
        }
        let mm = match m.compute_mask() {
            Ok(x) => x,
            Err(e) => return (nodes, trans, spliced, Some(mk("matcher_mask_error", &hist, json!({"err": e.to_string()})))),
        };
        if mask_to_vec(cm) != mask_to_vec(&mm) {
            return (nodes, trans, spliced, Some(mk("masks_differ", &hist, json!({"constraint": mask_to_vec(cm), "matcher": mask_to_vec(&mm)}))));
        }
        if hist.len() >= depth {
            continue;
        }
        let toks = mask_to_vec(cm);
        let picks: Vec<u32> = if toks.len() <= 4 { toks.clone() } else { vec![toks[0], toks[toks.len() / 3], toks[2 * toks.len() / 3], toks[toks.len() - 1]] };
        for t in picks {
            let mut c2 = c.deep_clone();
            // deep_clone drops the pending step result: ask again (a second mask in the same state)
            if c2.compute_mask().is_err() {
                continue;
            }
            let mut m2 = m.clone();
            trans += 1;
            let cr = match c2.commit_token(Some(t)) {
                Ok(cr) => cr,
                Err(e) => {
                    let s = e.to_string();
                    if crate::props::c01::is_resource_limit(&s) {
                        return (nodes, trans, spliced, None);
                    }
                    return (nodes, trans, spliced, Some(mk("commit_of_mask_token_failed", &hist, json!({"token": t, "err": s}))));
                }
            };
            if m2.consume_token(t).is_err() {
                return (nodes, trans, spliced, Some(mk("matcher_refuses_mask_token", &hist, json!({"token": t}))));
            }
            // what the property asks of the returned tokens: the sampled token first, no backtrack, then
            // fast-forward tokens that decode to a prefix of the bytes forced after the sampled token and
            // that the matcher accepts one by one (returning fewer of them is legitimate)
            if cr.backtrack != 0 || cr.ff_tokens.first() != Some(&t) {
                return (nodes, trans, spliced, Some(mk("commit_result_head", &hist, json!({"token": t, "commit_ff_tokens": cr.ff_tokens, "backtrack": cr.backtrack}))));
            }
            let extra: Vec<u32> = cr.ff_tokens[1..].to_vec();
            let forced = if m2.is_stopped() { vec![] } else { m2.clone().compute_ff_bytes() };
            let dec = ff.env.tok_trie().decode_raw(&extra);
            if !forced.starts_with(&dec) {
                return (nodes, trans, spliced, Some(mk("ff_tokens_not_forced", &hist, json!({"token": t, "commit_ff_tokens": cr.ff_tokens, "decoded": show(&dec), "forced_bytes": show(&forced)}))));
            }
            if !extra.is_empty() {
                spliced += 1;
            }
            for f in extra.iter() {
                if m2.consume_token(*f).is_err() {
                    return (nodes, trans, spliced, Some(mk("matcher_refuses_ff_token", &hist, json!({"token": t, "ff": extra}))));
                }
            }
            let exp_all = cr.ff_tokens.clone();
            let mut h2: Vec<u32> = hist.to_vec();
            h2.extend(exp_all.iter().copied());
            stack.push((c2, m2, h2));
        }
    }
    (nodes, trans, spliced, None)
}

/// Special-token positions under a canonical tokenizer (the byte reference of `run_job` cannot follow a
/// special token, so those jobs are inadmissible there). Oracle = the engine's own commit path: in a state
/// where bytes are reported as forced, every token that `validate_tokens` accepts must be consistent with
/// the forced text (an ordinary token's bytes prefix-comparable with it, a special token u only when the
/// text starts with the marker spelling of u), and end-of-sequence must not be acceptable at all.
fn special_forcing_pass(ctx: &Ctx) {
    use rayon::prelude::*;
    let mut v = crate::vocab::multi_vocab(b"abc", b"ab", 2, &[b"abc".as_slice(), b"bca".as_slice()], false).canonical(true);
    v.tokens.pop();
    let first_special = v.tokens.len() as u32;
    for s in ["<a>", "<b>", "<c>"] {
        let mut t = vec![0xFFu8];
        t.extend_from_slice(s.as_bytes());
        v.tokens.push(t);
    }
    v.tokens.push(crate::vocab::EOS_BYTES.to_vec());
    v.eos = v.tokens.len() as u32 - 1;
    v.name = format!("{}+3special", v.name);
    let (s1, s2, s3) = (first_special, first_special + 1, first_special + 2);
    let exprs: Vec<String> = vec!["<a>".into(), "<b>".into(), format!("<[{s1}]>"), format!("<[{s2}]>"), format!("<[{s1}-{s2}]>"), format!("<[{s2}-{s3}]>"), format!("<[{s1},{s3}]>"), format!("<[^0-{}]>", s1), format!("<[^0-{},{}]>", s1 - 1, v.eos)];
    let mut grammars: Vec<String> = corpus::special_items().into_iter().filter_map(|i| match i.g { GrammarSpec::Lark(t) => Some(t), _ => None }).collect();
    for (i, x) in exprs.iter().enumerate() {
        grammars.push(format!("start: \"a\" {x} \"b\""));
        for y in exprs.iter().skip(i + 1) {
            grammars.push(format!("start: \"a\" ( {x} | {y} ) \"b\""));
            grammars.push(format!("start: \"a\" ( {y} | {x} ) \"bc\""));
            grammars.push(format!("start: \"a\" ( {x} | {y} | \"c\" ) \"b\""));
        }
    }
    grammars.par_iter().for_each(|src| {
        let Ok(f) = Factory::new(&v, &Slices::Default) else { return };
        let g = GrammarSpec::Lark(src.clone());
        let Ok(root) = f.try_matcher(&g) else {
            ctx.count("special_forcing_grammars_refused", 1);
            return;
        };
        ctx.count("special_forcing_grammars", 1);
        let trie = f.env.tok_trie().clone();
        let nv = f.n_vocab as u32;
        let eos = trie.eos_token();
        let cfg = ExploreCfg { max_depth: 6, max_states: 400, use_key: true };
        let mut bad: Option<Violation> = None;
        let st = explore(root, &cfg, |m, hist, _d| {
            if m.is_stopped() || bad.is_some() {
                return Some(vec![]);
            }
            let f_bytes = m.clone().compute_ff_bytes();
            let accepted: Vec<u32> = (0..nv).filter(|u| m.clone().validate_tokens(&[*u]).unwrap_or(0) == 1).collect();
            if !f_bytes.is_empty() {
                ctx.count("special_forcing_states_with_forced_bytes", 1);
                if f_bytes[0] == 0xFF {
                    ctx.count("special_forcing_states_with_forced_special_token", 1);
                }
                for u in accepted.iter() {
                    let ub = trie.token(*u);
                    // (end-of-sequence is acceptable only as a token the grammar names here, spelled like any special)
                    let consistent = if ub.first() == Some(&0xFF) {
                        let mut spelled = vec![0xFFu8];
                        spelled.extend_from_slice(format!("[{u}]").as_bytes());
                        f_bytes.starts_with(&spelled)
                    } else {
                        !ub.is_empty() && (f_bytes.starts_with(ub) || ub.starts_with(&f_bytes))
                    };
                    if !consistent {
                        bad = Some(Violation {
                            check: "forced_text_vs_accepted_token".into(),
                            class: "forced-byte-not-forced".into(),
                            signature: format!("special-forcing|{}|{:?}|{}", src, hist, u),
                            detail: json!({"kind": "engine_history", "grammar": g.to_json(), "vocab": v.to_json(), "slices": Slices::Default.to_json(), "history": hist,
                                "what": {"forced_bytes": show(&f_bytes), "accepted_token": u, "accepted_token_bytes": show(ub), "all_accepted": accepted}}),
                        });
                        return None;
                    }
                }
            }
            Some(accepted.into_iter().filter(|u| *u != eos).collect())
        });
        ctx.states.fetch_add(st.states, Ordering::Relaxed);
        ctx.transitions.fetch_add(st.transitions, Ordering::Relaxed);
        ctx.validated.fetch_add(st.transitions, Ordering::Relaxed);
        if let Some(b) = bad {
            ctx.violation(b);
        }
    });
}

pub fn run(ctx: &Ctx) -> Coverage {
    special_forcing_pass(ctx);
    let mut items = c13_items();
    items.extend(crate::gen::lark_family(ctx.tier.pick(3, 4)));
    let kinds: Vec<VKind> = if ctx.quick() { vec![VKind::Multi2Canon, VKind::Multi3Canon] } else { vec![VKind::Multi2Canon, VKind::Multi3Canon, VKind::B256Canon, VKind::TikCanon(500)] };
    let jobs = make_jobs(&items, &kinds);
    let depth = ctx.tier.pick(7, 10);
    let max_states = ctx.tier.pick(3000, 20000);
    run_jobs(ctx, &jobs, |job| {
        let big = job.vocab.n() > 200;
        let cfg = ExploreCfg { max_depth: if big { 3 } else { depth }, max_states: if big { max_states / 8 } else { max_states }, use_key: true };
        let out = run_job(job, &cfg);
        if out.inadmissible {
            ctx.count("jobs_inadmissible", 1);
            return;
        }
        ctx.states.fetch_add(out.stats.states, Ordering::Relaxed);
        ctx.transitions.fetch_add(out.stats.transitions, Ordering::Relaxed);
        ctx.validated.fetch_add(out.stats.transitions, Ordering::Relaxed);
        ctx.add_counts(&out.counters);
        ctx.outcomes_extend(out.outcomes);
        if out.stats.closure_complete {
            ctx.count("jobs_closure_complete", 1);
        }
        if let Some(v) = out.violation {
            ctx.violation(v);
        }
        if !big && !ctx.over_budget() {
            let mut cnt = BTreeMap::new();
            if let Some(v) = run_prompt_job(job, &mut cnt) {
                ctx.violation(v);
            }
            ctx.add_counts(&cnt);
        }
        if !big && !ctx.over_budget() {
            let (nodes, trans, spliced, v) = constraint_ff_job(job, ctx.tier.pick(5, 8), ctx.tier.pick(600, 20_000));
            ctx.states.fetch_add(nodes, Ordering::Relaxed);
            ctx.transitions.fetch_add(trans, Ordering::Relaxed);
            ctx.count("sampling_loop_ff_nodes", nodes);
            ctx.count("sampling_loop_commits_with_ff_tokens", spliced);
            if let Some(v) = v {
                ctx.violation(v);
            }
        }
        ctx.sample(json!({"grammar": job.item.g.short(), "vocab": job.vocab.name}));
    });
    if ctx.get_count("states_with_forced_bytes") == 0 || ctx.get_count("states_with_ff_tokens") == 0 {
        ctx.machinery_error("vacuous run: no forced bytes / ff tokens seen");
    }
    Coverage::StateGraph {
        rule: format!("lock-step BFS over pairs (canonical-tokenizer engine, single-byte reference engine on the same grammar), depth {depth}, <= {max_states} pairs per job; in every pair each reported forced byte must be the reference's only allowed byte, ff tokens must decode to a prefix of the forced bytes, commit, and leave the remainder pending; every mask token is validated byte-wise on the reference; plus process_prompt on every canonical prompt of <= 2 tokens; plus the sampling loop with the ff_tokens capability (Constraint) in lock step with a Matcher without it: same stop status and mask in every state, commit_token returns the sampled token followed by tokens that decode to a prefix of the bytes forced there and that the matcher accepts; plus the special-token pass: grammars whose positions name special tokens (singles, lists, ranges, negated sets, alone and in every pair of alternatives) under a canonical tokenizer, every reachable state: whenever text is reported as forced, every token the commit path accepts must be consistent with it and end-of-sequence must not be acceptable"),
    }
}
