//! C15 — grammar optimisation preserves the language.
//! (a) bounded language (terminal sequences of length <= k) of the Grammar before and after
//!     optimize(), from the structured dump (hook H5); special symbols must survive;
//! (b) the same front-end grammar compiled with and without the optimiser (hook H4), explored
//!     in lock-step.
use crate::common::*;
use crate::corpus;
use crate::engine::*;
use crate::explore::*;
use crate::jobs::*;
use crate::jsongen;
use llguidance::api::{GrammarInit, ParserLimits};
use llguidance::earley::{ParamValue, VerifSymbol, VERIF_SKIP_OPTIMIZE};
use llguidance::Matcher;
use rayon::prelude::*;
use serde_json::json;
use std::collections::{BTreeMap, BTreeSet, HashMap};
use std::sync::atomic::Ordering;

type Seq = Vec<u32>;

/// least fixed point: (symbol, param) -> set of terminal sequences of length <= k
fn bounded_language(start: usize, syms: &[VerifSymbol], k: usize, cap: usize) -> Option<BTreeSet<Seq>> {
    let mut lang: HashMap<(usize, u64), BTreeSet<Seq>> = HashMap::new();
    let mut order: Vec<(usize, u64)> = vec![(start, 0)];
    lang.insert((start, 0), BTreeSet::new());
    loop {
        let mut changed = false;
        let mut i = 0;
        while i < order.len() {
            let (s, p) = order[i];
            i += 1;
            let sym = &syms[s];
            let mut new_set: BTreeSet<Seq> = BTreeSet::new();
            if let Some(l) = sym.lexeme {
                new_set.insert(vec![l as u32]);
            }
            for r in sym.rules.iter() {
                if !r.cond.eval(ParamValue(p)) {
                    continue;
                }
                let mut partial: BTreeSet<Seq> = BTreeSet::new();
                partial.insert(vec![]);
                for (c, e) in r.rhs.iter() {
                    let cp = e.eval(ParamValue(p)).0;
                    let key = (*c, cp);
                    if !lang.contains_key(&key) {
                        lang.insert(key, BTreeSet::new());
                        order.push(key);
                        changed = true;
                    }
                    let cl = &lang[&key];
                    let mut next = BTreeSet::new();
                    for a in partial.iter() {
                        for b in cl.iter() {
                            if a.len() + b.len() <= k {
                                let mut x = a.clone();
                                x.extend_from_slice(b);
                                next.insert(x);
                            }
                        }
                    }
                    partial = next;
                    if partial.is_empty() {
                        break;
                    }
                    if partial.len() > cap {
                        return None;
                    }
                }
                new_set.extend(partial);
            }
            if new_set.len() > cap || order.len() > 5000 {
                return None;
            }
            let cur = lang.get_mut(&(s, p)).unwrap();
            if new_set.len() != cur.len() {
                changed = true;
                *cur = new_set;
            }
        }
        if !changed {
            break;
        }
    }
    lang.remove(&(start, 0))
}

fn reachable(start: usize, syms: &[VerifSymbol]) -> BTreeSet<usize> {
    let mut r = BTreeSet::new();
    let mut w = vec![start];
    while let Some(s) = w.pop() {
        if !r.insert(s) {
            continue;
        }
        for rule in syms[s].rules.iter() {
            for (c, _) in rule.rhs.iter() {
                w.push(*c);
            }
        }
    }
    r
}

fn specials(start: usize, syms: &[VerifSymbol]) -> BTreeMap<String, usize> {
    let mut m = BTreeMap::new();
    for s in reachable(start, syms) {
        let y = &syms[s];
        if y.capture_name.is_some() || y.stop_capture_name.is_some() || y.max_tokens < usize::MAX || y.gen_grammar {
            let key = format!("capture={:?} stop_capture={:?} max_tokens={} gen_grammar={}", y.capture_name, y.stop_capture_name, if y.max_tokens == usize::MAX { "none".to_string() } else { y.max_tokens.to_string() }, y.gen_grammar);
            *m.entry(key).or_insert(0) += 1;
        }
    }
    m
}

fn check_language(ctx: &Ctx, name: &str, g: &GrammarSpec, k: usize) {
    let env = crate::vocab::b256().build();
    let init = GrammarInit::Serialized(g.top());
    let (grammar, _spec) = match init.to_internal(Some(env), ParserLimits::default()) {
        Ok(x) => x,
        Err(e) => {
            ctx.count("language_grammars_refused", 1);
            if !name.starts_with("js") && !name.starts_with("gen") {
                ctx.note(format!("refused {}: {}", name, e.to_string().lines().next().unwrap_or("")));
            }
            return;
        }
    };
    let (s0, d0) = grammar.verif_dump();
    let opt = match guarded(|| grammar.optimize()) {
        Ok(o) => o,
        Err(p) => {
            ctx.violation(Violation { check: "optimize_panic".into(), class: "optimizer-panic".into(), signature: format!("{}|{}", name, g.short()), detail: json!({"kind": "optimizer", "grammar": g.to_json(), "panic": p}) });
            return;
        }
    };
    let (s1, d1) = opt.verif_dump();
    ctx.states.fetch_add(1, Ordering::Relaxed);
    let (Some(l0), Some(l1)) = (bounded_language(s0, &d0, k, 30_000), bounded_language(s1, &d1, k, 30_000)) else {
        ctx.count("language_too_large_skipped", 1);
        return;
    };
    ctx.count("languages_compared", 1);
    ctx.validated.fetch_add(l0.len() as u64, Ordering::Relaxed);
    ctx.transitions.fetch_add(l0.len() as u64, Ordering::Relaxed);
    ctx.outcome(fnv(format!("{:?}", l0).as_bytes()));
    if d1.len() < d0.len() || d0.iter().filter(|s| !s.rules.is_empty()).count() != d1.iter().filter(|s| !s.rules.is_empty()).count() {
        ctx.count("grammars_changed_by_optimizer", 1);
    }
    if l0 != l1 {
        let only0: Vec<&Seq> = l0.difference(&l1).take(3).collect();
        let only1: Vec<&Seq> = l1.difference(&l0).take(3).collect();
        ctx.violation(Violation {
            check: "language_differs".into(),
            class: "optimizer-changes-language".into(),
            signature: format!("{}|{}", name, g.short()),
            detail: json!({"kind": "optimizer", "grammar": g.to_json(), "bound": k, "only_before_optimize": only0, "only_after_optimize": only1, "size_before": l0.len(), "size_after": l1.len()}),
        });
        return;
    }
    let (p0, p1) = (specials(s0, &d0), specials(s1, &d1));
    if p0 != p1 {
        ctx.violation(Violation {
            check: "special_symbols_differ".into(),
            class: "optimizer-drops-special-symbol".into(),
            signature: format!("{}|{}", name, g.short()),
            detail: json!({"kind": "optimizer", "grammar": g.to_json(), "before": p0, "after": p1}),
        });
    }
}

fn matcher_with_opt(f: &Factory, g: &GrammarSpec, optimize: bool) -> Result<Matcher, String> {
    VERIF_SKIP_OPTIMIZE.with(|c| c.set(!optimize));
    let r = f.try_matcher(g);
    VERIF_SKIP_OPTIMIZE.with(|c| c.set(false));
    r
}

fn check_behaviour(ctx: &Ctx, job: &Job, depth: usize, max_states: usize) {
    let Ok(f) = Factory::new(&job.vocab, &Slices::Default) else { return };
    let (a, b) = match (matcher_with_opt(&f, &job.item.g, true), matcher_with_opt(&f, &job.item.g, false)) {
        (Ok(a), Ok(b)) => (a, b),
        (Err(_), Err(_)) => return,
        (ra, rb) => {
            ctx.violation(Violation {
                check: "compiles_only_one_way".into(),
                class: "optimizer-changes-behaviour".into(),
                signature: format!("{}|{}", job.item.name, job.vocab.name),
                detail: json!({"kind": "optimizer", "grammar": job.item.g.to_json(), "optimized_error": ra.err(), "unoptimized_error": rb.err()}),
            });
            return;
        }
    };
    let cfg = ExploreCfg { max_depth: depth, max_states, use_key: true };
    let mut bad = None;
    let mut n_capt = 0u64;
    let st = explore_pair(a, b, &cfg, |x, y, hist, _d| {
        // what the symbols that carry a capture have captured so far
        if x.captures() != y.captures() {
            let f = |c: &[(String, Vec<u8>)]| c.iter().map(|(n, v)| (n.clone(), show(v))).collect::<Vec<_>>();
            bad = Some((hist.to_vec(), json!({"optimized_captures": f(x.captures()), "unoptimized_captures": f(y.captures())})));
            return None;
        }
        if !x.captures().is_empty() {
            n_capt += 1;
        }
        if x.is_stopped() || y.is_stopped() {
            if x.is_stopped() != y.is_stopped() {
                bad = Some((hist.to_vec(), json!({"optimized_stopped": x.is_stopped(), "unoptimized_stopped": y.is_stopped()})));
                return None;
            }
            return Some(vec![]);
        }
        let (mx, my) = match (x.compute_mask(), y.compute_mask()) {
            (Ok(p), Ok(q)) => (p, q),
            (Err(_), Err(_)) => return Some(vec![]),
            (p, q) => {
                let e = p.err().or(q.err()).map(|e| e.to_string()).unwrap_or_default();
                if crate::props::c01::is_resource_limit(&e) {
                    return Some(vec![]);
                }
                bad = Some((hist.to_vec(), json!({"mask_error_one_side": e})));
                return None;
            }
        };
        if mx.as_slice() != my.as_slice() || x.is_accepting().unwrap_or(false) != y.is_accepting().unwrap_or(false) {
            bad = Some((hist.to_vec(), json!({"optimized_mask": mask_to_vec(&mx), "unoptimized_mask": mask_to_vec(&my)})));
            return None;
        }
        Some(mask_to_vec(&mx).into_iter().map(|t| (t, vec![t])).collect())
    });
    ctx.states.fetch_add(st.states, Ordering::Relaxed);
    ctx.transitions.fetch_add(st.transitions, Ordering::Relaxed);
    ctx.validated.fetch_add(st.transitions, Ordering::Relaxed);
    ctx.count("behaviour_pairs_explored", 1);
    ctx.count("states_with_captures_compared", n_capt);
    if let Some((hist, what)) = bad {
        ctx.violation(Violation {
            check: "behaviour_differs".into(),
            class: "optimizer-changes-behaviour".into(),
            signature: format!("{}|{}|{:?}", job.item.name, job.vocab.name, hist),
            detail: json!({"kind": "engine_history", "grammar": job.item.g.to_json(), "vocab": job.vocab.to_json(), "slices": "default", "history": hist, "what": what}),
        });
    }
}

fn param_items() -> Vec<corpus::Item> {
    // parametric shapes with single-alternative guarded pass-through rules, aliases, wrappers
    let srcs = vec![
        ("p-guarded-alias", "start: aa::0\naa::_ : \"a\" aa::incr(_) %if lt(_, 4)\n  | bb_min::_\nbb_min::_ : bb::_ %if ge(_, 2)\nbb::_ : \"b\" bb::decr(_) %if gt(_, 0)\n  | \"\" %if eq(_, 0)"),
        ("p-alias-chain", "start: a::0x1\na::_ : b::_\nb::_ : c::_ %if bit_set(0)\nc::_ : \"x\" | \"y\" c::clear_bit(0) %if bit_set(0)"),
        ("p-wrapper", "start: w::0\nw::_ : inner::set_bit(1)\ninner::_ : \"a\" %if bit_set(1)\n  | \"b\" %if bit_clear(1)"),
        ("p-recursive-alias-with-param", "start: aa::0\naa::_ : \"b\" bb::_ | \"x\"\nbb::_ : aa::incr(_) %if lt(_,3)\n  | \"y\""),
        ("p-alias-used-with-expr", "start: u::0\nu::_ : \"a\" al::set_bit(1) | \"c\" al::_\nal::_ : t::_\nt::_ : \"x\" %if bit_set(1)\n  | \"y\" %if bit_clear(1)"),
        ("alias-plain", "start: a\na: b\nb: c\nc: \"x\" | \"y\" c"),
        ("alias-capture", "start: a \"!\"\na[capture]: b\nb: c\nc[capture=\"cc\"]: /[xy]+/"),
        ("cap-mid", "start: a \"!\" b \"q\"\na[capture]: /[xy]+/\nb[capture=\"bb\"]: \"z\" c\nc: a | \"q\""),
        ("cap-alias-twice", "start: a \"!\" a \"z\"\na[capture=\"A\"]: b\nb: \"x\" | \"y\" b"),
        ("cap-list", "start: item+ \"!\"\nitem[capture]: /[xy]/ \"z\"?"),
        ("alias-two-users", "start: a a | b\na: c\nb: c \"z\"\nc: \"x\" | \"y\""),
        ("alias-nullable", "start: a \"q\"\na: b\nb: c |\nc: \"x\""),
    ];
    let mut v: Vec<corpus::Item> = srcs
        .into_iter()
        .map(|(n, s)| corpus::Item { name: n.to_string(), g: GrammarSpec::Lark(s.to_string()), sentences: vec![b"aabb".to_vec(), b"xy!".to_vec(), b"xyzq".to_vec()], core: true })
        .collect();
    for p in crate::refs::cfg_earley::parametric_grammars() {
        v.push(corpus::Item { name: format!("pg-{}", p.name), g: GrammarSpec::Lark(p.lark.clone()), sentences: vec![b"abc".to_vec(), b"abd".to_vec()], core: true });
    }
    v
}

pub fn run(ctx: &Ctx) -> Coverage {
    let k = ctx.tier.pick(7, 9);
    let mut items = corpus::all_items();
    items.extend(corpus::noncore_lark_items());
    items.extend(param_items());
    items.extend(crate::gen::lark_family(ctx.tier.pick(4, 5)));
    for (i, s) in jsongen::all_schemas_x(true).into_iter().enumerate() {
        items.push(corpus::Item { name: format!("js{i}"), g: GrammarSpec::Json(s), sentences: vec![], core: true });
    }
    ctx.note(format!("{} grammars", items.len()));
    items.par_iter().for_each(|it| {
        if ctx.over_budget() {
            ctx.count("skipped_budget", 1);
            return;
        }
        check_language(ctx, &it.name, &it.g, k);
    });
    // behaviour: lock-step optimised vs unoptimised
    let beh_items: Vec<corpus::Item> = items.iter().filter(|i| !i.sentences.is_empty()).cloned().collect();
    let jobs = make_jobs(&beh_items, &[VKind::Bytes, VKind::Multi2]);
    let depth = ctx.tier.pick(7, 9);
    let max_states = ctx.tier.pick(2000, 10000);
    run_jobs(ctx, &jobs, |job| check_behaviour(ctx, job, depth, max_states));
    ctx.sample(json!({"grammar": "start: a \"!\" ; a[capture]: b ; b: c ; c[capture=\"cc\"]: /[xy]+/", "bound": k}));
    if ctx.get_count("languages_compared") == 0 || ctx.get_count("behaviour_pairs_explored") == 0 || ctx.get_count("grammars_changed_by_optimizer") == 0 {
        ctx.machinery_error("vacuous run: no language compared, no behaviour pair explored, or the optimizer never changed a grammar");
    }
    Coverage::StateGraph {
        rule: format!("(a) for every grammar of the corpus, the generated Lark family, the JSON-schema templates and hand-written parametric / alias shapes: the set of terminal-index sequences of length <= {k} derivable from the start symbol, computed as a least fixed point over (symbol, parameter value) on the structured dump of the Grammar before and after optimize(), must be equal, and the multiset of special symbols (captures, stop captures, token limits, sub-grammar links) reachable from the start must be equal; (b) the same grammars compiled with and without the optimiser and explored in lock-step (depth {depth}, <= {max_states} pairs): equal masks, accepting flags and captured values; states = grammars + explored pairs"),
    }
}
