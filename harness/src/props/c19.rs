//! C19 — special tokens are allowed only where the grammar names them.
use crate::common::*;
use crate::engine::*;
use crate::explore::*;
use crate::refs::cfg_earley::*;
use crate::vocab::VocabSpec;
use llguidance::Matcher;
use rayon::prelude::*;
use serde_json::json;
use std::collections::{HashSet, VecDeque};
use std::sync::atomic::Ordering;
use toktrie::TokenizerEnv;

fn c19_vocab_canon() -> VocabSpec {
    let mut v = c19_vocab();
    v.canonical = true;
    v.name = "SPEC(18)+canon".into();
    v
}

fn c19_vocab() -> VocabSpec {
    let toks: Vec<&[u8]> = vec![
        b"a", b"b", b"c", b"ab", b"\xFF<a>", b"\xFFab", b"\xFF", b"\xFF[3]", b"<a>", b"<", b">", b"[", b"3", b"]", b"\xFF<|x|>", b"x", b"\"", b"\xFF<eos>",
    ];
    let tokens: Vec<Vec<u8>> = toks.iter().map(|t| t.to_vec()).collect();
    let eos = tokens.len() as u32 - 1;
    VocabSpec { name: "SPEC(18)".into(), tokens, eos, extra_eos: vec![], canonical: false }
}

fn t(s: &str) -> Vec<Sym> {
    s.bytes().map(|b| Sym::T(vec![b])).collect()
}
fn tok(ids: &[u32]) -> Sym {
    Sym::Tok(ids.to_vec())
}
fn alt(syms: Vec<Sym>) -> Alt {
    Alt { cond: Cond::True, syms }
}
fn cat(parts: Vec<Vec<Sym>>) -> Vec<Sym> {
    parts.into_iter().flatten().collect()
}

struct SpecGrammar {
    name: String,
    lark: String,
    /// generated family: a refused or ambiguous member is skipped, not a machinery error
    generated: bool,
    bnf: Bnf,
    /// positions where the EOS bit is a don't-care (wildcard token range)
    wildcard: bool,
}

fn hand_grammars() -> Vec<SpecGrammar> {
    let plain = |n: usize| Sym::N(n, PExpr::SelfRef);
    let all_ids: Vec<u32> = (0..18).collect();
    vec![
        SpecGrammar { name: "named".into(), generated: false, lark: "start: \"a\" <a> \"b\"".into(), bnf: Bnf { nts: vec![vec![alt(cat(vec![t("a"), vec![tok(&[4])], t("b")]))]] }, wildcard: false },
        SpecGrammar { name: "range-ordinary-ids".into(), generated: false, lark: "start: \"a\" <[2-3]> \"b\"".into(), bnf: Bnf { nts: vec![vec![alt(cat(vec![t("a"), vec![tok(&[2, 3])], t("b")]))]] }, wildcard: false },
        SpecGrammar { name: "list".into(), generated: false, lark: "start: \"a\" <[4,7]> \"b\"".into(), bnf: Bnf { nts: vec![vec![alt(cat(vec![t("a"), vec![tok(&[4, 7])], t("b")]))]] }, wildcard: false },
        SpecGrammar { name: "negated".into(), generated: false, lark: "start: \"a\" <[^0-3,8-17]> \"b\"".into(), bnf: Bnf { nts: vec![vec![alt(cat(vec![t("a"), vec![tok(&[4, 5, 6, 7])], t("b")]))]] }, wildcard: false },
        SpecGrammar { name: "single-id".into(), generated: false, lark: "start: \"a\" <[7]> \"b\"".into(), bnf: Bnf { nts: vec![vec![alt(cat(vec![t("a"), vec![tok(&[7])], t("b")]))]] }, wildcard: false },
        SpecGrammar { name: "wildcard".into(), generated: false, lark: "start: \"ab\" <[*]> \"c\"".into(), bnf: Bnf { nts: vec![vec![alt(cat(vec![t("ab"), vec![tok(&all_ids)], t("c")]))]] }, wildcard: true },
        SpecGrammar { name: "spelled-name".into(), generated: false, lark: "start: \"<a>\" \"b\"".into(), bnf: Bnf { nts: vec![vec![alt(cat(vec![t("<a>"), t("b")]))]] }, wildcard: false },
        SpecGrammar { name: "spelled-numeric".into(), generated: false, lark: "start: \"[3]\" \"b\"".into(), bnf: Bnf { nts: vec![vec![alt(cat(vec![t("[3]"), t("b")]))]] }, wildcard: false },
        SpecGrammar { name: "alt3-named".into(), generated: false, lark: "start: \"a\" (<a> | <|x|> | <[7]>) \"b\"".into(), bnf: Bnf { nts: vec![vec![alt(cat(vec![t("a"), vec![tok(&[4, 14, 7])], t("b")]))]] }, wildcard: false },
        SpecGrammar { name: "alt2-named".into(), generated: false, lark: "start: \"a\" (<a> | <|x|>) \"b\"".into(), bnf: Bnf { nts: vec![vec![alt(cat(vec![t("a"), vec![tok(&[4, 14])], t("b")]))]] }, wildcard: false },
        SpecGrammar { name: "alt4-named".into(), generated: false, lark: "start: \"a\" (<a> | <|x|> | <[7]> | <[5]>) \"b\"".into(), bnf: Bnf { nts: vec![vec![alt(cat(vec![t("a"), vec![tok(&[4, 14, 7, 5])], t("b")]))]] }, wildcard: false },
        SpecGrammar { name: "list-then-single".into(), generated: false, lark: "start: \"a\" (<[4,7]> | <[14]>) \"b\"".into(), bnf: Bnf { nts: vec![vec![alt(cat(vec![t("a"), vec![tok(&[4, 7, 14])], t("b")]))]] }, wildcard: false },
        SpecGrammar { name: "single-forced".into(), generated: false, lark: "start: \"ab\" <|x|> \"ab\"".into(), bnf: Bnf { nts: vec![vec![alt(cat(vec![t("ab"), vec![tok(&[14])], t("ab")]))]] }, wildcard: false },
        SpecGrammar { name: "alt".into(), generated: false, lark: "start: <a> | \"a\" <|x|>".into(), bnf: Bnf { nts: vec![vec![alt(vec![tok(&[4])]), alt(cat(vec![t("a"), vec![tok(&[14])]]))]] }, wildcard: false },
        SpecGrammar {
            name: "loop".into(), generated: false,
            lark: "start: item+ \"b\"\nitem: \"a\" | <[5]>".into(),
            bnf: Bnf { nts: vec![vec![alt(vec![plain(1), Sym::T(vec![b'b'])])], vec![alt(vec![plain(2)]), alt(vec![plain(1), plain(2)])], vec![alt(t("a")), alt(vec![tok(&[5])])]] },
            wildcard: false,
        },
        SpecGrammar {
            name: "regex-then-token".into(), generated: false,
            lark: "start: /[ab]+/ <a> /c+/".into(),
            bnf: Bnf {
                nts: vec![
                    vec![alt(vec![plain(1), tok(&[4]), plain(2)])],
                    vec![alt(vec![Sym::T(vec![b'a', b'b'])]), alt(vec![plain(1), Sym::T(vec![b'a', b'b'])])],
                    vec![alt(vec![Sym::T(vec![b'c'])]), alt(vec![plain(2), Sym::T(vec![b'c'])])],
                ],
            },
            wildcard: false,
        },
        SpecGrammar {
            name: "text-only-any".into(), generated: false,
            lark: "start: /[a-c<>\\[\\]3x]{0,3}/".into(),
            bnf: {
                let cls = Sym::T(b"abc<>[]3x".to_vec());
                Bnf { nts: vec![vec![alt(vec![]), alt(vec![cls.clone()]), alt(vec![cls.clone(), cls.clone()]), alt(vec![cls.clone(), cls.clone(), cls.clone()])]] }
            },
            wildcard: false,
        },
    ]
}


/// token-reference expressions with the id sets they denote over the 18-token vocabulary
/// (written out by hand: the reference does not share the engine's range parser)
fn token_exprs() -> Vec<(&'static str, Vec<u32>)> {
    vec![
        ("<a>", vec![4]),
        ("<|x|>", vec![14]),
        ("<[7]>", vec![7]),
        ("<[5]>", vec![5]),
        ("<[4,7]>", vec![4, 7]),
        ("<[2-3]>", vec![2, 3]),
        ("<[4-7]>", vec![4, 5, 6, 7]),
        ("<[^0-3,8-17]>", vec![4, 5, 6, 7]),
        ("<[5,14-15]>", vec![5, 14, 15]),
        ("<[0]>", vec![0]),
        ("<[^0-16]>", vec![17]),
        ("<[*]>", (0..18).collect()),
    ]
}

/// every grammar  P X S | P X? S | P X+ S | P (X | "c")* S  with P in {"", "a", "ab"},
/// S in {"", "b", "ab"} and X a token expression or an alternation of two
fn generated_grammars(quick: bool) -> Vec<SpecGrammar> {
    let plain = |n: usize| Sym::N(n, PExpr::SelfRef);
    let ex = token_exprs();
    let mut xs: Vec<(String, Vec<u32>)> = ex.iter().map(|(s, ids)| (s.to_string(), ids.clone())).collect();
    for i in 0..ex.len() {
        for j in (i + 1)..ex.len() {
            if quick && (i + j) % 3 != 0 {
                continue;
            }
            let mut ids: Vec<u32> = ex[i].1.iter().chain(ex[j].1.iter()).copied().collect();
            ids.sort();
            ids.dedup();
            xs.push((format!("({} | {})", ex[i].0, ex[j].0), ids));
        }
    }
    let lit = |p: &str| if p.is_empty() { String::new() } else { format!("\"{p}\"") };
    let mut out = vec![];
    for (xi, (xt, ids)) in xs.iter().enumerate() {
        for p in ["", "a", "ab"] {
            for sfx in ["", "b", "ab"] {
                for form in 0..4 {
                    if quick && (xi + form) % 2 == 1 && !p.is_empty() && !sfx.is_empty() {
                        continue;
                    }
                    let tokx = tok(ids);
                    let (mid, nts_extra, start_alts): (String, Vec<Vec<Alt>>, Vec<Vec<Sym>>) = match form {
                        0 => (xt.clone(), vec![], vec![cat(vec![t(p), vec![tokx.clone()], t(sfx)])]),
                        1 => (format!("{xt}?"), vec![], vec![cat(vec![t(p), vec![tokx.clone()], t(sfx)]), cat(vec![t(p), t(sfx)])]),
                        2 => (format!("{xt}+"), vec![vec![alt(vec![tokx.clone()]), alt(vec![plain(1), tokx.clone()])]], vec![cat(vec![t(p), vec![plain(1)], t(sfx)])]),
                        _ => (format!("({xt} | \"c\")*"), vec![vec![alt(vec![]), alt(vec![plain(1), tokx.clone()]), alt(vec![plain(1), Sym::T(vec![b'c'])])]], vec![cat(vec![t(p), vec![plain(1)], t(sfx)])]),
                    };
                    let parts: Vec<String> = [lit(p), mid, lit(sfx)].into_iter().filter(|x| !x.is_empty()).collect();
                    let mut nts = vec![start_alts.into_iter().map(alt).collect::<Vec<_>>()];
                    nts.extend(nts_extra);
                    out.push(SpecGrammar { name: format!("gen-{xi}-{p}-{sfx}-{form}"), lark: format!("start: {}", parts.join(" ")), generated: true, bnf: Bnf { nts }, wildcard: ids.contains(&17) });
                }
            }
        }
    }
    out
}

/// negated token expressions <[^r1,r2,..]>: every ordered list of one or two (thorough: three)
/// distinct ranges from a menu whose end points touch, overlap and leave gaps; the denoted set is
/// the complement computed here, independently of the engine's range arithmetic
fn negated_grammars(quick: bool) -> Vec<SpecGrammar> {
    let menu: Vec<(u32, u32)> = vec![(0, 0), (0, 3), (1, 1), (4, 4), (4, 7), (5, 5), (8, 16), (8, 17), (17, 17), (1, 5), (3, 6), (6, 7)];
    let mut lists: Vec<Vec<(u32, u32)>> = vec![];
    for a in menu.iter() {
        lists.push(vec![*a]);
        for b in menu.iter() {
            if a == b {
                continue;
            }
            lists.push(vec![*a, *b]);
            if !quick {
                for c in menu.iter() {
                    if c != a && c != b {
                        lists.push(vec![*a, *b, *c]);
                    }
                }
            }
        }
    }
    let mut out = vec![];
    for (i, l) in lists.iter().enumerate() {
        let ids: Vec<u32> = (0..18u32).filter(|t| !l.iter().any(|(a, b)| a <= t && t <= b)).collect();
        if ids.is_empty() {
            continue;
        }
        let txt: Vec<String> = l.iter().map(|(a, b)| if a == b { format!("{a}") } else { format!("{a}-{b}") }).collect();
        let lark = format!("start: \"a\" <[^{}]> \"b\"", txt.join(","));
        out.push(SpecGrammar { name: format!("neg-{i}"), lark, generated: true, bnf: Bnf { nts: vec![vec![alt(cat(vec![t("a"), vec![tok(&ids)], t("b")]))]] }, wildcard: ids.contains(&17) });
    }
    out
}

fn grammars(quick: bool) -> Vec<SpecGrammar> {
    let mut v = hand_grammars();
    v.extend(generated_grammars(quick));
    v.extend(negated_grammars(quick));
    v
}

fn viol(g: &SpecGrammar, vocab: &VocabSpec, check: &str, class: &str, hist: &[u32], what: serde_json::Value) -> Violation {
    Violation {
        check: check.to_string(),
        class: class.to_string(),
        signature: format!("{}|{}|{:?}|{}", check, g.name, hist, what),
        detail: json!({"kind": "engine_history", "grammar": {"lark": g.lark.clone()}, "vocab": vocab.to_json(), "slices": "default", "history": hist,
            "history_bytes": hist.iter().map(|t| show(&vocab.tokens[*t as usize])).collect::<Vec<_>>(), "what": what}),
    }
}

fn run_grammar(ctx: &Ctx, g: &SpecGrammar, vocab: &VocabSpec, depth: usize) {
    let f = Factory::new(vocab, &Slices::Default).unwrap();
    let spec = GrammarSpec::Lark(g.lark.to_string());
    let root = match f.try_matcher(&spec) {
        Ok(m) => m,
        Err(e) => {
            if g.generated {
                ctx.count("generated_grammars_refused", 1);
                if ctx.get_count("generated_grammars_refused") <= 3 {
                    ctx.note(format!("refused: {} -> {}", g.lark, e.lines().next().unwrap_or("")));
                }
            } else {
                ctx.machinery_error(format!("C19 grammar {} refused: {}", g.name, e.lines().next().unwrap_or("")));
            }
            return;
        }
    };
    let ear = Earley::new(&g.bnf);
    let trie = f.env.tok_trie();
    let nv = f.n_vocab as u32;
    let eos = trie.eos_token();
    struct N {
        m: Matcher,
        c: Chart,
        hist: Vec<u32>,
    }
    let c0 = ear.start();
    let mut seen: HashSet<(u128, u64)> = HashSet::new();
    seen.insert((state_key(&root), ear.key(&c0)));
    let mut q = VecDeque::new();
    q.push_back(N { m: root, c: c0, hist: vec![] });
    while let Some(mut n) = q.pop_front() {
        crate::watchdog::beat();
        ctx.states.fetch_add(1, Ordering::Relaxed);
        if n.m.is_error() {
            ctx.violation(viol(g, vocab, "engine_error", "special-token-engine-error", &n.hist, json!({"err": n.m.get_error()})));
            return;
        }
        if n.m.is_stopped() {
            continue;
        }
        let mask = match n.m.compute_mask() {
            Ok(m) => m,
            Err(e) => {
                ctx.violation(viol(g, vocab, "mask_error", "special-token-engine-error", &n.hist, json!({"err": e.to_string()})));
                return;
            }
        };
        ctx.outcome(mask_hash(&mask) ^ fnv(g.name.as_bytes()));
        let expected_toks = ear.expected_toks(&n.c);
        let ff = if vocab.canonical { n.m.clone().compute_ff_tokens() } else { vec![] };
        if !ff.is_empty() {
            // canonical tokenizer: the mask narrows to the forced token; forcing is only
            // legitimate when the reference allows a single way forward
            ctx.count("forcing_states", 1);
            let ref_allowed: Vec<u32> = (0..nv).filter(|t| {
                let b = trie.token(*t);
                if *t == eos { return ear.accepting(&n.c) || ear.step_tok(&n.c, *t).is_some(); } // EOS named by a token expression is denoted
                ear.step_tok(&n.c, *t).is_some() || (b.first() != Some(&0xFF) && !b.is_empty() && ear.run(&n.c, b).is_some())
            }).collect();
            let tok_alts = expected_toks.len();
            let first_bytes: std::collections::BTreeSet<u8> = ref_allowed.iter().filter(|t| !expected_toks.contains(t)).filter_map(|t| trie.token(*t).first().copied()).collect();
            let legit = (tok_alts == 0 && first_bytes.len() == 1) || (tok_alts == 1 && first_bytes.is_empty());
            let ml = mask_to_vec(&mask);
            if !legit || ml != vec![ff[0]] || !ref_allowed.contains(&ff[0]) {
                ctx.violation(viol(g, vocab, "forcing_not_legitimate", "token-reference-forced-wrongly", &n.hist,
                    json!({"ff_tokens": ff, "mask": ml, "reference_allowed": ref_allowed, "token_reference_alternatives": tok_alts})));
                return;
            }
            // follow the forced token
            let t = ff[0];
            let bytes = trie.token(t);
            let c2 = ear.step_tok(&n.c, t).or_else(|| if bytes.first() != Some(&0xFF) { ear.run(&n.c, bytes) } else { None });
            let mut c = n.m.clone();
            if let (Some(c2), Ok(())) = (c2, c.consume_token(t)) {
                if n.hist.len() < depth {
                    let k = (state_key(&c), ear.key(&c2));
                    if seen.insert(k) {
                        let mut h = n.hist.clone();
                        h.push(t);
                        q.push_back(N { m: c, c: c2, hist: h });
                    }
                }
            } else {
                ctx.violation(viol(g, vocab, "forced_token_rejected", "token-reference-forced-wrongly", &n.hist, json!({"ff_tokens": ff})));
                return;
            }
            continue;
        }
        let at_tok_pos = !expected_toks.is_empty();
        if at_tok_pos {
            ctx.count("token_reference_positions", 1);
        }
        for t in 0..nv {
            let bytes = trie.token(t);
            let special = bytes.first() == Some(&0xFF);
            let allowed = mask.is_allowed(t);
            // reference
            let via_tok = ear.step_tok(&n.c, t);
            let via_text = if !special && !bytes.is_empty() && t != eos { ear.run(&n.c, bytes) } else { None };
            if via_tok.is_some() && via_text.is_some() && g.generated {
                ctx.count("generated_grammars_ambiguous_skipped", 1);
                return;
            }
            if via_tok.is_some() && via_text.is_some() {
                ctx.machinery_error(format!("C19 grammar {} is ambiguous at {:?} for token {}", g.name, n.hist, t));
                return;
            }
            let expected = if t == eos {
                if g.wildcard && expected_toks.contains(&t) {
                    allowed // don't-care
                } else {
                    ear.accepting(&n.c)
                }
            } else {
                via_tok.is_some() || via_text.is_some()
            };
            if allowed != expected {
                let numeric_name = special && bytes.len() >= 4 && bytes[1] == b'[' && bytes[bytes.len() - 1] == b']' && bytes[2..bytes.len() - 1].iter().all(|b| b.is_ascii_digit());
                let class = if allowed && numeric_name && at_tok_pos { "special-token-numeric-name-leaks-through-range" } else if allowed && special { "special-token-allowed-at-text-position" } else if allowed { "token-allowed-not-denoted" } else { "denoted-token-missing" };
                ctx.violation(viol(g, vocab, "mask_vs_reference", class, &n.hist,
                    json!({"token": t, "token_bytes": show(bytes), "engine_allows": allowed, "reference": expected, "at_token_reference_position": at_tok_pos})));
                if class == "special-token-numeric-name-leaks-through-range" {
                    continue;
                }
                return;
            }
            // every mask token commits (C01 relation); and validate agrees
            let v = n.m.clone().validate_tokens(&[t]).unwrap_or(99) == 1;
            let mut c = n.m.clone();
            let cm = c.consume_token(t).is_ok();
            if g.wildcard && t == eos && expected_toks.contains(&t) {
                continue; // EOS inside a wildcard range: outside this check (C18's question)
            }
            if allowed && (!v || !cm) {
                ctx.violation(viol(g, vocab, "mask_token_rejected", "mask-token-rejected", &n.hist, json!({"token": t, "token_bytes": show(bytes), "validate": v, "commit": cm})));
                return;
            }
            if !allowed && (v || cm) && !(g.wildcard && t == eos) {
                ctx.violation(viol(g, vocab, "rejected_token_commits", "special-token-commit-without-mask", &n.hist, json!({"token": t, "token_bytes": show(bytes), "validate": v, "commit": cm})));
                return;
            }
            if allowed && t != eos && n.hist.len() < depth {
                let c2 = via_tok.or(via_text).unwrap();
                ctx.transitions.fetch_add(1, Ordering::Relaxed);
                ctx.validated.fetch_add(1, Ordering::Relaxed);
                let k = (state_key(&c), ear.key(&c2));
                if seen.insert(k) {
                    let mut h = n.hist.clone();
                    h.push(t);
                    q.push_back(N { m: c, c: c2, hist: h });
                }
            }
        }
    }
}

fn run_tokenization(ctx: &Ctx, vocab: &VocabSpec) {
    // text that merely spells a special token's name is tokenised as ordinary text
    let env = vocab.build();
    let trie = env.tok_trie();
    for text in ["<a>", "a<a>b", "ab", "[3]", "<|x|>", "<a", "a>"] {
        let toks = env.tokenize_bytes(text.as_bytes());
        ctx.count("tokenization_checks", 1);
        if toks.iter().any(|t| trie.is_special_token(*t)) {
            ctx.violation(Violation { check: "spelled_name_tokenized_special".into(), class: "text-tokenized-as-special".into(), signature: format!("tok|{text}"), detail: json!({"kind": "tokenize", "text": text, "tokens": toks}) });
        }
        let dec = trie.decode_raw(&toks);
        let covered = text.bytes().all(|b| trie.token_id(&[b]).is_some());
        if covered && dec != text.as_bytes() {
            ctx.violation(Violation { check: "spelled_name_roundtrip".into(), class: "text-tokenized-as-special".into(), signature: format!("rt|{text}"), detail: json!({"kind": "tokenize", "text": text, "tokens": toks, "decoded": show(&dec)}) });
        }
    }
    // the marker form is honoured by tokenize_bytes_marker
    for (text, exp_special) in [(&b"a\xFF<a>b"[..], Some(4u32)), (b"\xFF[7]", Some(7)), (b"\xFF<nosuch>", None)] {
        let (toks, fixed) = env.tokenize_bytes_marker(text);
        ctx.count("tokenization_checks", 1);
        match exp_special {
            Some(id) => {
                if !toks.contains(&id) || fixed == 0 {
                    ctx.violation(Violation { check: "marker_not_honoured".into(), class: "marker-tokenization".into(), signature: format!("marker|{}", show(text)), detail: json!({"kind": "tokenize", "text": show(text), "tokens": toks, "fixed": fixed}) });
                }
            }
            None => {
                if toks.iter().any(|t| trie.is_special_token(*t)) {
                    ctx.violation(Violation { check: "unknown_marker_name_became_special".into(), class: "marker-tokenization".into(), signature: format!("marker|{}", show(text)), detail: json!({"kind": "tokenize", "text": show(text), "tokens": toks}) });
                }
            }
        }
    }
}

pub fn run(ctx: &Ctx) -> Coverage {
    let vocab = c19_vocab();
    let depth = ctx.tier.pick(6, 10);
    let gs = grammars(ctx.quick());
    ctx.note(format!("{} token-reference grammars", gs.len()));
    let guarded_run = |g: &SpecGrammar, v: &VocabSpec| {
        if ctx.over_budget() {
            ctx.count("grammars_skipped_budget", 1);
            return;
        }
        run_grammar(ctx, g, v, depth)
    };
    gs.par_iter().for_each(|g| guarded_run(g, &vocab));
    let vcanon = c19_vocab_canon();
    gs.par_iter().for_each(|g| guarded_run(g, &vcanon));
    // JSON / regex text grammars: no special token, no bare marker anywhere
    let text_grammars = vec![
        GrammarSpec::Json(json!({"type": "string", "maxLength": 3})),
        GrammarSpec::Json(json!({"type": "object", "properties": {"<a>": {"type": "null"}}, "additionalProperties": false})),
        GrammarSpec::Regex("[a-c<>\\[\\]3x\"]{1,4}".into()),
        GrammarSpec::Regex("(.|\\n){0,3}".into()),
        GrammarSpec::Lark("start: /(?s:.){0,3}/".into()),
        GrammarSpec::Lark("start: T\nT: ~/zzz/ & /(?s:.{0,3})/".into()),
    ];
    text_grammars.par_iter().for_each(|g| {
        let f = Factory::new(&vocab, &Slices::Default).unwrap();
        let Ok(root) = f.try_matcher(g) else { return };
        let trie = f.env.tok_trie();
        let cfg = ExploreCfg { max_depth: depth.min(6), max_states: 4000, use_key: true };
        let mut bad: Option<Violation> = None;
        let st = explore(root, &cfg, |m, hist, _d| {
            if m.is_stopped() {
                return Some(vec![]);
            }
            let Ok(mask) = m.compute_mask() else { return Some(vec![]) };
            let acc = m.is_accepting().unwrap_or(false);
            let mut succ = vec![];
            for tk in mask.iter() {
                let b = trie.token(tk);
                let is_eos = tk == trie.eos_token();
                if (b.first() == Some(&0xFF) && !(is_eos && acc)) || b.is_empty() {
                    bad = Some(Violation {
                        check: "text_grammar_allows_special".into(),
                        class: "special-token-allowed-at-text-position".into(),
                        signature: format!("{}|{:?}|{}", g.short(), hist, tk),
                        detail: json!({"kind": "engine_history", "grammar": g.to_json(), "vocab": vocab.to_json(), "slices": "default", "history": hist, "what": {"token": tk, "token_bytes": show(b)}}),
                    });
                    return None;
                }
                if !is_eos {
                    succ.push(tk);
                }
            }
            Some(succ)
        });
        ctx.states.fetch_add(st.states, Ordering::Relaxed);
        ctx.transitions.fetch_add(st.transitions, Ordering::Relaxed);
        ctx.count("text_grammar_states", st.states);
        if let Some(v) = bad {
            ctx.violation(v);
        }
    });
    run_tokenization(ctx, &vocab);
    ctx.sample(json!({"grammar": "start: \"a\" <[2-3]> \"b\"", "vocab": vocab.tokens.iter().map(|t| show(t)).collect::<Vec<_>>()}));
    if ctx.get_count("token_reference_positions") == 0 {
        ctx.machinery_error("vacuous run: no token-reference position reached");
    }
    Coverage::StateGraph {
        rule: format!("17 hand-written grammars plus every generated grammar P X S | P X? S | P X+ S | P (X | \"c\")* S (P in \"\", a, ab; S in \"\", b, ab; X one of 12 token expressions or an alternation of two; {} grammars in all, ambiguous members skipped; plus every negated expression <[^r1,r2(,r3)]> over a 12-range menu with touching, overlapping and gapped ranges) mixing text with <name>, <[id]>, <[a-b]>, <[a,b]>, <[^...]>, <[*]> and 6 text-only grammars (JSON, regex, ~/&) over an 18-token vocabulary with special tokens named like grammar text, a bare marker token, a special token named [3], and ordinary tokens spelling special names; BFS over the product (real engine, reference Earley chart with token-reference terminals) to depth {depth}; in every state every token id is compared with the reference and committed/validated; plus tokenisation of spelled-out special names and marker forms", gs.len()),
    }
}
