//! C17, second part: the entry points the first part never called (DESIGN §32):
//!  * `llg_new_tokenizer_v2` (struct_size prefix copy, extra EOS tokens, custom slices) with a
//!    caller-supplied `tokenize_fn` — a *canonical* tokenizer, so the forced-token paths and the
//!    fast-forward tokens of `llg_commit_token` run through the C API — in lock-step with a Rust
//!    factory over the same vocabulary;
//!  * `llg_clone_tokenizer`;
//!  * the stop-controller wrappers (`llg_new_stop_controller`, `llg_stop_commit_token`,
//!    `llg_clone_stop_controller`, `llg_free_stop_controller`) against `StopController`, every token
//!    sequence up to a length bound;
//!  * `llg_new_constraint` (serialized TopLevelGrammar), `llg_get_temperature`, the mask result's
//!    temperature, `llg_matcher_get_error`, `llg_flush_logs`, `llg_get_version`.
use super::*;
use llguidance::StopController;
use toktrie::TokTrie;

extern "C" fn greedy_cb(user: *const c_void, bytes: *const u8, len: usize, out: *mut u32, out_len: usize) -> usize {
    let trie = unsafe { &*(user as *const TokTrie) };
    let s: &[u8] = if len == 0 { &[] } else { unsafe { std::slice::from_raw_parts(bytes, len) } };
    let toks = trie.greedy_tokenize(s);
    CB_CALLS.fetch_add(1, Ordering::Relaxed);
    for (i, t) in toks.iter().enumerate().take(out_len) {
        unsafe { *out.add(i) = *t };
    }
    toks.len()
}
pub(super) static CB_CALLS: AtomicU32 = AtomicU32::new(0);

pub(super) struct V2Opts<'a> {
    pub extra_eos: &'a [u32],
    pub canonical_cb: bool,
    pub assumes_string: bool,
    pub slices: Option<&'a [&'a str]>,
    /// how many bytes of the struct the caller claims to have (forward-compat prefix copy)
    pub struct_size: usize,
}

pub(super) fn new_c_tokenizer_v2(words: &[Vec<u8>], o: &V2Opts) -> Result<CTok, String> {
    let lens: Vec<u32> = words.iter().map(|w| w.len() as u32).collect();
    let bytes: Vec<u8> = words.iter().flatten().copied().collect();
    let eos = words.len() as u32 - 1;
    let keep: Option<Box<TokTrie>> = if o.canonical_cb {
        let spec = crate::vocab::VocabSpec { name: "cb".into(), tokens: words.to_vec(), eos, extra_eos: o.extra_eos.to_vec(), canonical: true };
        Some(Box::new(spec.build().tok_trie().clone()))
    } else {
        None
    };
    let cslices: Vec<CString> = o.slices.map(|s| s.iter().map(|x| CString::new(*x).unwrap()).collect()).unwrap_or_default();
    let mut slice_ptrs: Vec<*const std::os::raw::c_char> = cslices.iter().map(|c| c.as_ptr()).collect();
    slice_ptrs.push(std::ptr::null());
    // the struct sits at the end of a guarded heap block so that a read beyond struct_size bytes
    // would return poison (red zone) rather than plausible data
    let init = LlgTokenizerInitV2 {
        struct_size: o.struct_size,
        vocab_size: words.len() as u32,
        tok_eos: eos,
        token_lens: lens.as_ptr(),
        token_bytes: bytes.as_ptr(),
        tokenizer_json: std::ptr::null(),
        tokenize_assumes_string: o.assumes_string,
        tokenize_fn: if o.canonical_cb { Some(greedy_cb) } else { None },
        use_approximate_greedy_tokenize_fn: !o.canonical_cb,
        tokenize_user_data: keep.as_ref().map_or(std::ptr::null(), |k| &**k as *const TokTrie as *const c_void),
        slices: if o.slices.is_some() { slice_ptrs.as_ptr() } else { std::ptr::null() },
        tok_eos_extra: if o.extra_eos.is_empty() { std::ptr::null() } else { o.extra_eos.as_ptr() },
        tok_eos_extra_count: o.extra_eos.len() as u32,
    };
    let mut err = vec![0u8; 256];
    let p = unsafe { llg_new_tokenizer_v2(&init, err.as_mut_ptr() as *mut i8, err.len()) };
    if p.is_null() {
        let n = err.iter().position(|b| *b == 0).unwrap_or(err.len());
        return Err(String::from_utf8_lossy(&err[..n]).to_string());
    }
    Ok(CTok { ptr: p, words: words.to_vec(), eos, _keep: keep })
}

fn bviol(check: &str, class: &str, what: serde_json::Value) -> Violation {
    Violation { check: check.to_string(), class: class.to_string(), signature: format!("{}|{}|{}", check, variant(), what), detail: json!({"kind": "ffi", "tokenizer_variant": variant(), "what": what}) }
}

/// llg_new_tokenizer_v2 itself: the trie the C side built (tokens, EOS set, canonical flag) equals the Rust
/// one; a struct_size that stops before the extra-EOS fields must ignore them (prefix copy), a struct_size
/// below the minimum and an out-of-range EOS must be refused with a message inside the buffer.
pub(super) fn tokenizer_v2_contract(ctx: &Ctx, words: &[Vec<u8>]) -> Result<(), Violation> {
    use toktrie::TokenizerEnv;
    let n = words.len() as u32;
    let full = std::mem::size_of::<LlgTokenizerInitV2>();
    let upto_extra = std::mem::offset_of!(LlgTokenizerInitV2, tok_eos_extra);
    let extra = [n - 2];
    for (struct_size, expect_extra) in [(full, true), (upto_extra, false), (full + 64, true)] {
        // full + 64: a caller compiled against a *newer* header; only size_of bytes may be read
        let o = V2Opts { extra_eos: &extra, canonical_cb: true, assumes_string: false, slices: None, struct_size };
        let c = new_c_tokenizer_v2(words, &o).map_err(|e| bviol("tokenizer_v2_refused", "ffi-result-differs", json!({"struct_size": struct_size, "err": e})))?;
        ctx.count("tokenizer_v2_built", 1);
        let env = unsafe { &*c.ptr }.to_env();
        let trie = env.tok_trie();
        let mut ok = trie.vocab_size() == words.len() && env.tokenize_is_canonical();
        for (i, w) in words.iter().enumerate() {
            ok = ok && trie.token(i as u32) == &w[..];
        }
        let eos_set: Vec<u32> = trie.eos_tokens().to_vec();
        let exp: Vec<u32> = if expect_extra { vec![n - 1, n - 2] } else { vec![n - 1] };
        let mut a = eos_set.clone();
        a.sort();
        let mut b = exp.clone();
        b.sort();
        // clone shares everything
        let c2 = unsafe { llg_clone_tokenizer(&*c.ptr) };
        let env2 = unsafe { &*c2 }.to_env();
        ok = ok && env2.tok_trie().vocab_size() == words.len() && env2.tok_trie().eos_tokens() == trie.eos_tokens();
        // tokenization goes through the callback
        let before = CB_CALLS.load(Ordering::Relaxed);
        let text = b"abxx{\"a\":12}";
        let got = env2.tokenize_bytes(text);
        let expect = c._keep.as_ref().unwrap().greedy_tokenize(text);
        ok = ok && got == expect && CB_CALLS.load(Ordering::Relaxed) > before;
        unsafe { llg_free_tokenizer(c2) };
        unsafe { llg_free_tokenizer(c.ptr) };
        if !ok || a != b {
            return Err(bviol("tokenizer_v2_contents", "ffi-result-differs", json!({"struct_size": struct_size, "eos_tokens": eos_set, "expected_eos": exp})));
        }
    }
    // refusals, every error-buffer length between canaries
    let min = std::mem::offset_of!(LlgTokenizerInitV2, token_lens);
    for (what, struct_size, bad_extra) in [("struct_size_too_small", min - 1, None), ("extra_eos_out_of_range", full, Some(n + 3))] {
        for err_len in [0usize, 1, 2, 7, 40, 200] {
            let lens: Vec<u32> = words.iter().map(|w| w.len() as u32).collect();
            let bytes: Vec<u8> = words.iter().flatten().copied().collect();
            let ex = [bad_extra.unwrap_or(0)];
            let init = LlgTokenizerInitV2 {
                struct_size,
                vocab_size: n,
                tok_eos: n - 1,
                token_lens: lens.as_ptr(),
                token_bytes: bytes.as_ptr(),
                tokenizer_json: std::ptr::null(),
                tokenize_assumes_string: false,
                tokenize_fn: None,
                use_approximate_greedy_tokenize_fn: true,
                tokenize_user_data: std::ptr::null(),
                slices: std::ptr::null(),
                tok_eos_extra: if bad_extra.is_some() { ex.as_ptr() } else { std::ptr::null() },
                tok_eos_extra_count: bad_extra.is_some() as u32,
            };
            let mut buf = vec![0xA5u8; err_len + 8];
            for i in 0..4 {
                buf[i] = 0xC1;
                buf[err_len + 4 + i] = 0xC1;
            }
            let p = unsafe { llg_new_tokenizer_v2(&init, buf.as_mut_ptr().add(4) as *mut std::os::raw::c_char, err_len) };
            ctx.count("text_buffer_calls", 1);
            if !p.is_null() {
                unsafe { llg_free_tokenizer(p) };
                return Err(bviol("tokenizer_v2_invalid_accepted", "ffi-result-differs", json!({"case": what})));
            }
            let body = &buf[4..4 + err_len];
            let nul = body.iter().position(|b| *b == 0);
            let ok = buf[..4].iter().all(|b| *b == 0xC1) && buf[err_len + 4..].iter().all(|b| *b == 0xC1) && (err_len == 0 || nul.is_some()) && nul.map_or(true, |k| body[k + 1..].iter().all(|b| *b == 0xA5));
            if !ok {
                return Err(bviol("tokenizer_v2_error_string_buffer", "ffi-buffer", json!({"case": what, "err_len": err_len, "buffer": show(&buf)})));
            }
        }
    }
    Ok(())
}

/// Stop-controller wrappers in lock-step with the Rust `StopController`: every token sequence up to
/// `maxlen` over the 17-token stop vocabulary of C18, for every configuration the C constructor can
/// express (stop tokens + one regex). Compared after every commit: returned text (pointer, length,
/// NUL at [length]), stopped flag; a clone taken at every node continues identically.
pub(super) fn stop_controller_wrappers(ctx: &Ctx, maxlen: usize) {
    let vocab = super::super::c18::stop_vocab();
    let renv = vocab.build();
    let ctok = match new_c_tokenizer(&vocab.tokens) {
        Ok(c) => c,
        Err(e) => {
            ctx.machinery_error(format!("llg_new_tokenizer (stop vocabulary) failed: {e}"));
            return;
        }
    };
    let nv = vocab.n() as u32;
    let mut cfgs: Vec<(Vec<u32>, Option<&'static str>)> = super::super::c18::stop_cfgs(vocab.eos).into_iter().filter(|c| c.strings.is_empty()).map(|c| (c.stop_tokens, c.regex)).collect();
    cfgs.push((vec![0, 3], Some("b[a1]")));
    cfgs.push((vec![], Some("\u{e9}|1+x")));
    cfgs.push((vec![14], None));
    for (stop_tokens, rx) in cfgs.iter() {
        if ctx.has_violations() {
            break;
        }
        let crx = rx.map(|r| CString::new(r).unwrap());
        let mut err = vec![0u8; 128];
        let c0 = unsafe { llg_new_stop_controller(&*ctok.ptr, stop_tokens.as_ptr(), stop_tokens.len(), crx.as_ref().map_or(std::ptr::null(), |c| c.as_ptr()), err.as_mut_ptr() as *mut i8, err.len()) };
        let r0 = StopController::new(renv.clone(), stop_tokens.clone(), rx.map(|s| s.to_string()), vec![]);
        let r0 = match (c0.is_null(), r0) {
            (false, Ok(r)) => r,
            (true, Err(_)) => continue,
            (cnull, r) => {
                ctx.violation(bviol("stop_controller_constructor", "ffi-result-differs", json!({"stop_tokens": stop_tokens, "regex": rx, "c_null": cnull, "rust_ok": r.is_ok()})));
                if !cnull {
                    unsafe { llg_free_stop_controller(c0) };
                }
                continue;
            }
        };
        ctx.count("stop_wrapper_configs", 1);
        // DFS; C controllers are cloned through the C API and freed when their node is done
        struct Fr {
            c: *mut LlgStopController,
            r: StopController,
            toks: Vec<u32>,
        }
        let mut stack = vec![Fr { c: c0, r: r0, toks: vec![] }];
        let mut bad: Option<Violation> = None;
        while let Some(fr) = stack.pop() {
            crate::watchdog::beat();
            if bad.is_none() && fr.toks.len() < maxlen {
                for t in 0..nv {
                    let c = unsafe { llg_clone_stop_controller(&*fr.c) };
                    let mut r = fr.r.clone();
                    let mut len = usize::MAX;
                    let mut stopped = false;
                    let p = unsafe { llg_stop_commit_token(&mut *c, t, &mut len, &mut stopped) };
                    let exp = r.commit_token(t);
                    ctx.count("stop_wrapper_commits", 1);
                    ctx.transitions.fetch_add(1, Ordering::Relaxed);
                    ctx.validated.fetch_add(1, Ordering::Relaxed);
                    let mut toks = fr.toks.clone();
                    toks.push(t);
                    let ok = !p.is_null() && len == exp.len() && {
                        let got = unsafe { std::slice::from_raw_parts(p as *const u8, len + 1) };
                        &got[..len] == exp.as_bytes() && got[len] == 0
                    } && stopped == r.is_stopped();
                    if !ok {
                        let got = if p.is_null() || len > 4096 { vec![] } else { unsafe { std::slice::from_raw_parts(p as *const u8, len) }.to_vec() };
                        bad = Some(bviol("stop_commit_token", "ffi-result-differs", json!({"stop_tokens": stop_tokens, "regex": rx, "tokens": toks, "c_text": show(&got), "c_len": len, "c_stopped": stopped, "rust_text": exp, "rust_stopped": r.is_stopped()})));
                        unsafe { llg_free_stop_controller(c) };
                        break;
                    }
                    ctx.outcome(fnv(exp.as_bytes()) ^ stopped as u64);
                    stack.push(Fr { c, r, toks });
                }
            }
            unsafe { llg_free_stop_controller(fr.c) };
            ctx.states.fetch_add(1, Ordering::Relaxed);
        }
        if let Some(v) = bad {
            ctx.violation(v);
        }
    }
    // a refused controller: message within the buffer, every length
    let badrx = CString::new("a(").unwrap();
    for err_len in 0..48usize {
        let mut buf = vec![0xA5u8; err_len + 8];
        for i in 0..4 {
            buf[i] = 0xC1;
            buf[err_len + 4 + i] = 0xC1;
        }
        let p = unsafe { llg_new_stop_controller(&*ctok.ptr, std::ptr::null(), 0, badrx.as_ptr(), buf.as_mut_ptr().add(4) as *mut std::os::raw::c_char, err_len) };
        ctx.count("text_buffer_calls", 1);
        if !p.is_null() {
            unsafe { llg_free_stop_controller(p) };
            ctx.violation(bviol("stop_controller_invalid_regex_accepted", "ffi-result-differs", json!({})));
            break;
        }
        let body = &buf[4..4 + err_len];
        let nul = body.iter().position(|b| *b == 0);
        let ok = buf[..4].iter().all(|b| *b == 0xC1) && buf[err_len + 4..].iter().all(|b| *b == 0xC1) && (err_len == 0 || nul.is_some()) && nul.map_or(true, |k| body[k + 1..].iter().all(|b| *b == 0xA5));
        if !ok {
            ctx.violation(bviol("stop_controller_error_string_buffer", "ffi-buffer", json!({"err_len": err_len, "buffer": show(&buf)})));
            break;
        }
    }
    unsafe { llg_free_tokenizer(ctok.ptr) };
    if BROKEN_REDZONES.load(Ordering::Relaxed) > 0 {
        ctx.violation(bviol("heap_redzone_broken", "ffi-over-write", json!({"where": "stop controller wrappers", "count": BROKEN_REDZONES.load(Ordering::Relaxed)})));
    }
}

/// temperature (mask result + llg_get_temperature) along every history, llg_new_constraint on the
/// serialized grammar, llg_matcher_get_error stability, llg_flush_logs, llg_get_version
pub(super) fn misc_entry_points(ctx: &Ctx, env: &Env) -> Result<(), Violation> {
    let mut init: LlgConstraintInit = unsafe { std::mem::zeroed() };
    llg_constraint_init_set_defaults(&mut init, env.ctok.ptr);
    init.log_stderr_level = 0;
    init.log_buffer_level = 0;
    init.ff_tokens_ok = env.ff;
    let lark = "start: aa \":\" bb \"c\"?\naa[temperature=0.7]: /a+/\nbb[temperature=0.25]: /b+/";
    let top = TopLevelGrammar::from_lark(lark.to_string());
    let ser = CString::new(serde_json::to_string(&top).unwrap()).unwrap();
    let g = ("llguidance".to_string(), lark.to_string());
    // every history over the mask to depth 4
    let mut stack: Vec<Vec<u32>> = vec![vec![]];
    while let Some(hist) = stack.pop() {
        crate::watchdog::beat();
        let cc = llg_new_constraint(&init, ser.as_ptr());
        if !unsafe { llg_get_error(&*cc) }.is_null() {
            let msg = unsafe { std::ffi::CStr::from_ptr(llg_get_error(&*cc)) }.to_string_lossy().to_string();
            unsafe { llg_free_constraint(cc) };
            return Err(viol("new_constraint_serialized", "ffi-result-differs", &g, env.n_vocab, &hist, json!({"err": "C refused the serialized grammar", "message": msg})));
        }
        let mut rc = Constraint::new(env.factory.create_parser(top.clone()).map_err(|e| viol("new_constraint_serialized", "ffi-result-differs", &g, env.n_vocab, &hist, json!({"rust_err": e.to_string()})))?);
        let mut res: Result<Vec<u32>, Violation> = Ok(vec![]);
        for (i, t) in hist.iter().map(Some).chain(std::iter::once(None)).enumerate() {
            let mut r = LlgMaskResult { sample_mask: std::ptr::null(), temperature: -1.0, is_stop: false };
            let code = unsafe { llg_compute_mask(&mut *cc, &mut r) };
            let rr = rc.compute_mask().map(|x| (x.sample_mask.clone(), x.is_stop()));
            let rt = rc.temperature;
            let ct = unsafe { llg_get_temperature(&*cc) };
            ctx.count("temperature_comparisons", 1);
            match &rr {
                Ok((m, stop)) => {
                    if code != 0 || r.is_stop != *stop || r.temperature.to_bits() != rt.to_bits() || ct.to_bits() != rt.to_bits() {
                        res = Err(viol("temperature", "ffi-result-differs", &g, env.n_vocab, &hist[..i.min(hist.len())], json!({"c_code": code, "c_mask_result_temperature": r.temperature, "c_get_temperature": ct, "rust_temperature": rt, "c_stop": r.is_stop, "rust_stop": stop})));
                        break;
                    }
                    if rt != 0.0 {
                        ctx.count("temperature_nonzero_states", 1);
                    }
                    if t.is_none() {
                        if let (Some(m), false) = (m, *stop) {
                            res = Ok(m.iter().collect());
                        }
                    }
                }
                Err(_) => {
                    if code == 0 {
                        res = Err(viol("temperature_mask_code", "ffi-result-differs", &g, env.n_vocab, &hist, json!({})));
                    }
                    break;
                }
            }
            if r.is_stop {
                break;
            }
            if let Some(t) = t {
                let mut cr = LlgCommitResult { tokens: std::ptr::null(), n_tokens: 0, is_stop: false };
                let c2 = unsafe { llg_commit_token(&mut *cc, *t, &mut cr) };
                let r2 = rc.commit_token(Some(*t));
                if (c2 == 0) != r2.is_ok() {
                    res = Err(viol("temperature_commit", "ffi-result-differs", &g, env.n_vocab, &hist, json!({})));
                    break;
                }
                if c2 != 0 {
                    break;
                }
            }
        }
        // logs (level 0): a valid, empty C string
        let lp = unsafe { llg_flush_logs(&mut *cc) };
        if lp.is_null() || !unsafe { std::ffi::CStr::from_ptr(lp) }.to_bytes().is_empty() {
            res = Err(viol("flush_logs", "ffi-result-differs", &g, env.n_vocab, &hist, json!({})));
        }
        unsafe { llg_free_constraint(cc) };
        let succ = res?;
        if hist.len() < 4 {
            for t in succ.into_iter().take(5) {
                let mut h = hist.clone();
                h.push(t);
                stack.push(h);
            }
        }
    }
    // matcher error: null while healthy; after an illegal commit the same pointer every time, text = Rust's
    let ctype = CString::new("lark").unwrap();
    let cdata = CString::new("start: \"ab\"").unwrap();
    let cm = unsafe { llg_new_matcher(&init, ctype.as_ptr(), cdata.as_ptr()) };
    let mut rm = Matcher::new(env.factory.create_parser(TopLevelGrammar::from_lark("start: \"ab\"".to_string())));
    let g2 = ("lark".to_string(), "start: \"ab\"".to_string());
    if !llg_matcher_get_error(unsafe { &mut *cm }).is_null() {
        unsafe { llg_free_matcher(cm) };
        return Err(viol("matcher_get_error_when_healthy", "ffi-result-differs", &g2, env.n_vocab, &[], json!({})));
    }
    let bad_tok = 3u32; // 'd'
    let c = llg_matcher_consume_token(unsafe { &mut *cm }, bad_tok);
    let r = rm.consume_token(bad_tok);
    let p1 = llg_matcher_get_error(unsafe { &mut *cm });
    let _ = llg_matcher_consume_token(unsafe { &mut *cm }, 0);
    let p2 = llg_matcher_get_error(unsafe { &mut *cm });
    let same = (c == 0) == r.is_ok() && (p1.is_null() == !rm.is_error()) && p1 == p2 && (p1.is_null() || unsafe { std::ffi::CStr::from_ptr(p1) }.to_string_lossy() == rm.get_error().unwrap_or_default());
    unsafe { llg_free_matcher(cm) };
    if !same {
        return Err(viol("matcher_get_error", "ffi-result-differs", &g2, env.n_vocab, &[bad_tok], json!({"c_code": c, "rust_ok": r.is_ok(), "stable_pointer": p1 == p2})));
    }
    let v = llg_get_version();
    if v.is_null() || unsafe { std::ffi::CStr::from_ptr(v) }.to_bytes().is_empty() {
        return Err(viol("get_version", "ffi-result-differs", &g2, env.n_vocab, &[], json!({})));
    }
    Ok(())
}
