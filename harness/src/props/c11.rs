//! C11 — caching never changes a mask; C12 — rollback restores the earlier state.
//! Both use the blind operation-sequence driver of opseq.rs.
use crate::common::*;
use crate::corpus;
use crate::engine::*;
use crate::jobs::*;
use crate::opseq::*;
use serde_json::json;
use std::sync::atomic::Ordering;

fn small_items(ctx: &Ctx) -> Vec<corpus::Item> {
    let mut items = corpus::all_items();
    items.extend(corpus::special_items());
    items.extend(corpus::option_items());
    items.extend(crate::gen::lark_family(ctx.tier.pick(2, 3)));
    items
}

pub fn run_generic(ctx: &Ctx, is_c12: bool) -> Coverage {
    let items = small_items(ctx);
    let kinds: Vec<VKind> = if ctx.quick() {
        vec![VKind::Bytes, VKind::Multi2, VKind::Multi2Canon, VKind::Multi2TwoEos]
    } else {
        vec![VKind::Bytes, VKind::Multi2, VKind::Multi3, VKind::Multi2Canon, VKind::Multi3Canon, VKind::Multi2TwoEos]
    };
    let t_items = ctx.elapsed();
    let jobs = make_jobs(&items, &kinds);
    ctx.note(format!("items={} in {:.1}s, jobs={} ready at {:.1}s", items.len(), t_items, jobs.len(), ctx.elapsed()));
    let cfg = if is_c12 {
        OpSeqCfg {
            n_mut: ctx.tier.pick(5, 7),
            n_query: ctx.tier.pick(1, 2),
            rollback: true,
            reset: true,
            max_branch: ctx.tier.pick(4, 6),
            cache_oracles: false,
            node_cap: ctx.tier.pick(6_000, 400_000),
        }
    } else {
        OpSeqCfg {
            n_mut: ctx.tier.pick(4, 6),
            n_query: 2,
            rollback: true,
            reset: false,
            max_branch: ctx.tier.pick(4, 6),
            cache_oracles: true,
            node_cap: ctx.tier.pick(5_000, 300_000),
        }
    };
    let name = if is_c12 { "C12" } else { "C11" };
    run_jobs(ctx, &jobs, |job| {
        let t0 = std::time::Instant::now();
        let out = run_opseq(job, &Slices::Default, &cfg, name);
        let dt = t0.elapsed().as_secs_f64();
        ctx.count("job_wall_ms_sum", (dt * 1000.0) as u64);
        ctx.count_max("last_job_end_ms", (ctx.elapsed() * 1000.0) as u64);
        if dt > 30.0 {
            ctx.note(format!("slow job {:.1}s nodes={} {} / {}", dt, out.nodes, job.item.name, job.vocab.name));
        }
        if out.inadmissible {
            ctx.count("jobs_inadmissible", 1);
            return;
        }
        ctx.states.fetch_add(out.nodes, Ordering::Relaxed);
        ctx.transitions.fetch_add(out.transitions, Ordering::Relaxed);
        ctx.validated.fetch_add(out.nodes, Ordering::Relaxed);
        ctx.add_counts(&out.counters);
        ctx.count("reference_histories", out.ref_histories);
        ctx.outcomes_extend(out.outcomes);
        if out.cap_hit {
            ctx.count("jobs_node_cap_hit", 1);
        } else {
            ctx.count("jobs_fully_enumerated", 1);
        }
        if let Some(v) = out.violation {
            ctx.violation(v);
        }
        ctx.sample(json!({"grammar": job.item.g.short(), "vocab": job.vocab.name}));
    });
    if ctx.get_count("queries") == 0 || ctx.get_count("rollbacks") == 0 {
        ctx.machinery_error("vacuous run: no query or no rollback operation executed");
    }
    Coverage::StateGraph {
        rule: format!(
            "all operation sequences with <= {} mutations (commit of each mask token [<= {} per state], rollback k for every k{}) and <= {} query bundles placed anywhere, executed blind on the real engine; after every operation the subject's clone is fully observed (mask, accepting, ff bytes/tokens, stop, validate of every token) and compared with a freshly built engine that replayed the logical history{}; states = operation-sequence nodes; a job whose node cap was hit is counted in jobs_node_cap_hit",
            cfg.n_mut, cfg.max_branch, if cfg.reset { ", reset" } else { "" }, cfg.n_query,
            if cfg.cache_oracles { ", with the mask after invalidate_bias_cache() and with a deep_clone()" } else { "" }
        ),
    }
}

pub fn run_c11(ctx: &Ctx) -> Coverage {
    run_generic(ctx, false)
}

pub fn run_c12(ctx: &Ctx) -> Coverage {
    run_generic(ctx, true)
}
