//! C04 — a regex constraint admits exactly the regex's language.
//! Product of (real engine, reference DFA) over a vocabulary of single bytes, whole characters,
//! partial characters and short multi-byte tokens; closure of the product = language equality
//! over that alphabet for all lengths.
use crate::common::*;
use crate::engine::*;
use crate::explore::*;
use crate::refs::regex_dfa::*;
use crate::vocab::VocabSpec;
use llguidance::Matcher;
use rayon::prelude::*;
use serde_json::json;
use std::collections::{BTreeMap, HashSet, VecDeque};
use std::sync::atomic::Ordering;

pub fn c04_vocab() -> VocabSpec {
    let mut toks: Vec<Vec<u8>> = vec![];
    for b in [0x61u8, 0x62, 0x63, 0x0A, 0x41, 0x42, 0xC3, 0xA9, 0x89, 0xBC, 0xE2, 0x82, 0xAC, 0xF0, 0x9F, 0x98, 0x80, b'#', 0xC0] {
        toks.push(vec![b]);
    }
    for s in ["ab", "ba", "aa", "bb", "a\n", "é", "€", "😀", "É", "aé", "éa", "😀a", "bé", "€€", "aA", "abc", "aab", "bab"] {
        toks.push(s.as_bytes().to_vec());
    }
    for raw in [&[0xE2u8, 0x82][..], &[0x82, 0xAC], &[0xF0, 0x9F], &[0xF0, 0x9F, 0x98], &[0x9F, 0x98, 0x80], &[0xA9, 0x61], &[0x61, 0xC3], &[0xC3, 0xC3]] {
        toks.push(raw.to_vec());
    }
    toks.push(crate::vocab::EOS_BYTES.to_vec());
    let eos = toks.len() as u32 - 1;
    VocabSpec { name: "RX(45)".into(), tokens: toks, eos, extra_eos: vec![], canonical: false }
}

pub fn atoms() -> Vec<R> {
    vec![
        R::Char('a'),
        R::Char('b'),
        R::Class(vec![('a', 'b')], false),
        R::Class(vec![('a', 'a')], true),
        R::Dot,
        R::Char('é'),
        R::Char('€'),
        R::Char('😀'),
    ]
}

/// all regex ASTs with exactly `size` nodes
pub fn rexprs(size: usize, bool_ops: bool, memo: &mut Vec<Option<Vec<R>>>) -> Vec<R> {
    while memo.len() <= size {
        memo.push(None);
    }
    if let Some(v) = &memo[size] {
        return v.clone();
    }
    let mut out = vec![];
    if size == 1 {
        out = atoms();
    } else {
        let inner = rexprs(size - 1, bool_ops, memo);
        for e in inner.iter() {
            let b = || Box::new(e.clone());
            out.push(R::Star(b()));
            out.push(R::Plus(b()));
            out.push(R::Opt(b()));
            for (m, n) in [(0u32, Some(2u32)), (1, Some(2)), (2, Some(2)), (2, Some(3)), (1, None), (2, None)] {
                out.push(R::Rep(b(), m, n));
            }
            if !matches!(e, R::NoCase(_)) && !e.has_bool_ops() {
                out.push(R::NoCase(b()));
            }
            if bool_ops {
                out.push(R::Not(b()));
            }
        }
        if size >= 3 {
            for ls in 1..=(size - 2) {
                let rs = size - 1 - ls;
                let l = rexprs(ls, bool_ops, memo);
                let r = rexprs(rs, bool_ops, memo);
                for a in l.iter() {
                    for b in r.iter() {
                        out.push(R::Cat(Box::new(a.clone()), Box::new(b.clone())));
                        if a < b {
                            out.push(R::Alt(Box::new(a.clone()), Box::new(b.clone())));
                            if bool_ops {
                                out.push(R::And(Box::new(a.clone()), Box::new(b.clone())));
                            }
                        }
                    }
                }
            }
        }
    }
    memo[size] = Some(out.clone());
    out
}

#[derive(Clone)]
pub struct RxJob {
    pub r: R,
    pub entry: &'static str,
    pub g: GrammarSpec,
}

pub fn jobs_for(r: &R) -> Vec<RxJob> {
    let mut v = vec![];
    let mut seen = HashSet::new();
    if !r.has_bool_ops() {
        let g = GrammarSpec::Regex(r.regex_text(0));
        v.push(RxJob { r: r.clone(), entry: "from_regex", g });
    }
    let t = r.lark_terminal(0);
    if seen.insert(t.clone()) {
        v.push(RxJob { r: r.clone(), entry: "lark_terminal", g: GrammarSpec::Lark(format!("start: T\nT: {}", t)) });
    }
    if let Some(t) = r.lark_structural(0) {
        if seen.insert(t.clone()) {
            v.push(RxJob { r: r.clone(), entry: "lark_structural", g: GrammarSpec::Lark(format!("start: T\nT: {}", t)) });
        }
    }
    v
}

pub struct RxOut {
    pub states: u64,
    pub transitions: u64,
    pub closure: bool,
    pub violation: Option<Violation>,
    pub refused: Option<String>,
    pub outcomes: Vec<u64>,
    pub multibyte_allowed: u64,
    pub partial_char_allowed: u64,
    pub forced_states: u64,
}

fn viol(job: &RxJob, vocab: &VocabSpec, check: &str, class: &str, hist: &[u32], what: serde_json::Value) -> Violation {
    let text: Vec<u8> = hist.iter().flat_map(|t| vocab.tokens[*t as usize].clone()).collect();
    Violation {
        check: check.to_string(),
        class: class.to_string(),
        signature: format!("{}|{}|{}|{}", check, job.entry, job.g.short(), show(&text)),
        detail: json!({
            "kind": "engine_history",
            "grammar": job.g.to_json(),
            "vocab": vocab.to_json(),
            "slices": "none",
            "history": hist,
            "text_so_far": show(&text),
            "reference_regex_ast": format!("{:?}", job.r),
            "what": what,
        }),
    }
}

/// product search (engine, DFA state); generic over how the reference DFA was obtained
pub fn product_check(job: &RxJob, dfa: &Dfa, f: &Factory, vocab: &VocabSpec, max_states: usize) -> RxOut {
    let mut out = RxOut { states: 0, transitions: 0, closure: false, violation: None, refused: None, outcomes: vec![], multibyte_allowed: 0, partial_char_allowed: 0, forced_states: 0 };
    let root = match f.try_matcher(&job.g) {
        Ok(m) => m,
        Err(e) => {
            out.refused = Some(e);
            return out;
        }
    };
    let trie = f.env.tok_trie();
    let nv = f.n_vocab as u32;
    let eos = trie.eos_token();
    struct N {
        m: Matcher,
        q: u32,
        hist: Vec<u32>,
    }
    let mut seen: HashSet<(u128, u32)> = HashSet::new();
    seen.insert((state_key(&root), dfa.start));
    let mut queue = VecDeque::new();
    queue.push_back(N { m: root, q: dfa.start, hist: vec![] });
    let mut capped = false;
    while let Some(mut n) = queue.pop_front() {
        crate::watchdog::beat();
        out.states += 1;
        let q = n.q;
        if n.m.is_error() {
            out.violation = Some(viol(job, vocab, "engine_error", "regex-engine-error", &n.hist, json!({"err": n.m.get_error()})));
            return out;
        }
        if n.m.is_stopped() {
            if !(dfa.is_final(q) && !dfa.has_live_successor(q)) {
                out.violation = Some(viol(job, vocab, "stopped_wrongly", "regex-complete-mismatch", &n.hist,
                    json!({"ref_final": dfa.is_final(q), "ref_can_extend": dfa.has_live_successor(q)})));
                return out;
            }
            continue;
        }
        let acc = n.m.is_accepting().unwrap_or(false);
        if acc != dfa.is_final(q) {
            out.violation = Some(viol(job, vocab, "accepting_vs_match", "regex-complete-mismatch", &n.hist, json!({"engine_accepting": acc, "reference_matches": dfa.is_final(q)})));
            return out;
        }
        let mask = match n.m.compute_mask() {
            Ok(m) => Some(m),
            Err(e) => {
                if crate::props::c01::is_resource_limit(&e.to_string()) {
                    out.refused = Some(e.to_string());
                    return out;
                }
                None
            }
        };
        out.outcomes.push(mask.as_ref().map(|m| mask_hash(m)).unwrap_or(7) ^ acc as u64);
        if vocab.canonical {
            // canonical tokenizer: while text is forced the mask may narrow to the one forced token;
            // forcing is legitimate only where the reference allows exactly one next byte and no stop
            let ff = n.m.clone().compute_ff_tokens();
            if let (Some(&t), Some(mk)) = (ff.first(), mask.as_ref()) {
                let live_next: Vec<u8> = (0..=255u8).filter(|b| dfa.is_live(dfa.run(q, &[*b]))).collect();
                let bytes = trie.token(t);
                let q2 = dfa.run(q, bytes);
                let ml = mask_to_vec(mk);
                if live_next.len() != 1 || dfa.is_final(q) || !dfa.is_live(q2) || ml != vec![t] {
                    out.violation = Some(viol(job, vocab, "forcing_not_legitimate", "regex-forces-one-of-several-continuations", &n.hist,
                        json!({"ff_tokens": ff, "mask": ml, "reference_next_bytes": live_next.iter().map(|b| show(&[*b])).collect::<Vec<_>>(), "reference_matches_here": dfa.is_final(q)})));
                    return out;
                }
                out.forced_states += 1;
                let mut c = n.m.clone();
                out.transitions += 1;
                if let Err(e) = c.consume_token(t) {
                    out.violation = Some(viol(job, vocab, "commit_failed", "regex-engine-error", &n.hist, json!({"token": t, "err": e.to_string()})));
                    return out;
                }
                if seen.insert((state_key(&c), q2)) {
                    let mut h = n.hist.clone();
                    h.push(t);
                    queue.push_back(N { m: c, q: q2, hist: h });
                }
                continue;
            }
        }
        for t in 0..nv {
            if t == eos {
                continue;
            }
            let bytes = trie.token(t);
            if bytes.is_empty() || bytes[0] == 0xFF {
                continue;
            }
            let q2 = dfa.run(q, bytes);
            let live = dfa.is_live(q2);
            let allowed = mask.as_ref().map(|m| m.is_allowed(t)).unwrap_or(false);
            if allowed != live {
                out.violation = Some(viol(job, vocab, "token_vs_viable_prefix", if allowed { "regex-allows-dead-prefix" } else { "regex-rejects-viable-prefix" }, &n.hist,
                    json!({"token": t, "token_bytes": show(bytes), "engine_allows": allowed, "reference_viable": live})));
                return out;
            }
            if allowed {
                if bytes.len() >= 2 {
                    out.multibyte_allowed += 1;
                }
                if std::str::from_utf8(bytes).is_err() {
                    out.partial_char_allowed += 1;
                }
                let mut c = n.m.clone();
                out.transitions += 1;
                if let Err(e) = c.consume_token(t) {
                    out.violation = Some(viol(job, vocab, "commit_failed", "regex-engine-error", &n.hist, json!({"token": t, "err": e.to_string()})));
                    return out;
                }
                let k = (state_key(&c), q2);
                if seen.insert(k) {
                    if seen.len() > max_states {
                        capped = true;
                        continue;
                    }
                    let mut h = n.hist.clone();
                    h.push(t);
                    queue.push_back(N { m: c, q: q2, hist: h });
                }
            }
        }
    }
    out.closure = !capped;
    out
}

/// second oracle: anchored dense DFA of the regex-automata crate, compared with the harness DFA
pub fn crosscheck_regex_automata(text: &str, mine: &Dfa) -> Result<(), String> {
    use regex_automata::dfa::{dense, Automaton, StartKind};
    use regex_automata::util::{primitives::StateID, start, syntax};
    use regex_automata::{Anchored, MatchKind};
    let dfa = dense::Builder::new()
        .configure(dense::Config::new().start_kind(StartKind::Anchored).match_kind(MatchKind::All).minimize(false))
        .syntax(syntax::Config::new().unicode(true).utf8(true))
        .build(text)
        .map_err(|e| format!("regex-automata cannot build {text:?}: {e}"))?;
    let st = dfa
        .start_state(&start::Config::new().anchored(Anchored::Yes))
        .map_err(|e| format!("start: {e}"))?;
    let mut seen: HashSet<(u32, StateID)> = HashSet::new();
    let mut work = vec![(mine.start, st, Vec::<u8>::new())];
    seen.insert((mine.start, st));
    while let Some((q, s, w)) = work.pop() {
        let their_match = dfa.is_match_state(dfa.next_eoi_state(s));
        if mine.is_final(q) != their_match {
            return Err(format!("reference DFAs disagree on {:?} for regex {:?}: harness={} regex-automata={}", show(&w), text, mine.is_final(q), their_match));
        }
        for b in 0..=255u8 {
            let q2 = mine.step(q, b);
            let s2 = dfa.next_state(s, b);
            let dead2 = dfa.is_dead_state(s2);
            if q2 == DEAD && dead2 {
                continue;
            }
            if seen.insert((q2, s2)) {
                if seen.len() > 200_000 {
                    return Ok(());
                }
                let mut w2 = w.clone();
                w2.push(b);
                work.push((q2, s2, w2));
            }
        }
    }
    Ok(())
}

/// %regex substring terminals; reference = explicit finite set of chunk-contiguous concatenations
/// every chunk list over a small chunk alphabet up to a length bound (suffix-automaton shapes:
/// repeated chunks, runs, a chunk recurring after a run)
fn substring_family(quick: bool) -> Vec<RxJob> {
    let mut v = vec![];
    let mut add = |chunks: Vec<String>| {
        let mut r = R::Eps;
        for i in 0..chunks.len() {
            for j in (i + 1)..=chunks.len() {
                r = alt(r, lit(&chunks[i..j].concat()));
            }
        }
        let js = serde_json::to_string(&chunks).unwrap();
        v.push(RxJob { r, entry: "substring_family", g: GrammarSpec::Lark(format!("start: T\nT: %regex {{ \"substring_chunks\": {} }}", js)) });
    };
    let families: Vec<(Vec<&str>, usize)> = if quick {
        vec![(vec!["a", "b"], 6), (vec!["a", "b", "c"], 4), (vec!["a", "ab", "b"], 3)]
    } else {
        vec![(vec!["a", "b"], 9), (vec!["a", "b", "c"], 6), (vec!["a", "ab", "b"], 5), (vec!["a", "é", "ba"], 4)]
    };
    for (alpha, maxlen) in families {
        for len in 1..=maxlen {
            let mut idx = vec![0usize; len];
            loop {
                add(idx.iter().map(|i| alpha[*i].to_string()).collect());
                let mut p = len;
                loop {
                    if p == 0 {
                        break;
                    }
                    p -= 1;
                    idx[p] += 1;
                    if idx[p] < alpha.len() {
                        break;
                    }
                    idx[p] = 0;
                    if p == 0 {
                        p = usize::MAX;
                        break;
                    }
                }
                if p == usize::MAX || (p == 0 && idx.iter().all(|x| *x == 0)) {
                    break;
                }
            }
        }
    }
    v
}

fn substring_jobs() -> Vec<RxJob> {
    let menus: Vec<Vec<&str>> = vec![
        vec!["ab", "c", "ba"],
        vec!["a", "a", "b"],
        vec!["é", "€", "a"],
        vec!["a", "ab", "b", "a"],
        vec!["b"],
        vec!["aa", "a", "aa", "b\n"],
        vec!["😀", "a", "😀"],
    ];
    let mut v = vec![];
    for chunks in menus {
        let chunks_real: Vec<String> = chunks.iter().map(|c| c.replace("\\n", "\n")).collect();
        let mut r = R::Eps;
        for i in 0..chunks_real.len() {
            for j in (i + 1)..=chunks_real.len() {
                let s: String = chunks_real[i..j].concat();
                r = alt(r, lit(&s));
            }
        }
        let js = serde_json::to_string(&chunks_real).unwrap();
        v.push(RxJob { r: r.clone(), entry: "substring_chunks", g: GrammarSpec::Lark(format!("start: T\nT: %regex {{ \"substring_chunks\": {} }}", js)) });
        // the same inside a larger terminal-free rule: followed by a literal
        v.push(RxJob { r: cat(r, ch('#')), entry: "substring_chunks_then_lit", g: GrammarSpec::Lark(format!("start: T \"#\"\nT: %regex {{ \"substring_chunks\": {} }}", js)) });
    }
    let words = "ab ba  a";
    let mut chunks: Vec<String> = vec![];
    // documented: substring_words splits into words and the separators between them
    let mut cur = String::new();
    let mut cur_ws = None;
    for c in words.chars() {
        let ws = c.is_whitespace();
        if cur_ws.is_some() && cur_ws != Some(ws) {
            chunks.push(std::mem::take(&mut cur));
        }
        cur.push(c);
        cur_ws = Some(ws);
    }
    if !cur.is_empty() {
        chunks.push(cur);
    }
    let _ = chunks; // the exact chunking of separators is adapter policy; not judged here
    let chars = "abé";
    let cs: Vec<String> = chars.chars().map(|c| c.to_string()).collect();
    let mut r = R::Eps;
    for i in 0..cs.len() {
        for j in (i + 1)..=cs.len() {
            r = alt(r, lit(&cs[i..j].concat()));
        }
    }
    v.push(RxJob { r, entry: "substring_chars", g: GrammarSpec::Lark(format!("start: T\nT: %regex {{ \"substring_chars\": \"{}\" }}", chars)) });
    v
}

fn corpus_regexes() -> Vec<(String, R)> {
    // hand-translated corpus regexes (text, AST)
    let digit = R::Class(vec![('0', '9')], false);
    let d19 = R::Class(vec![('1', '9')], false);
    vec![
        ("ab|ac|b+".to_string(), alt(alt(lit("ab"), lit("ac")), R::Plus(Box::new(ch('b'))))),
        ("-?(0|[1-9][0-9]*)(\\.[0-9]+)?".to_string(),
            cat(cat(R::Opt(Box::new(ch('-'))), alt(ch('0'), cat(d19.clone(), R::Star(Box::new(digit.clone()))))), R::Opt(Box::new(cat(ch('.'), R::Plus(Box::new(digit.clone()))))))),
        ("(?i)ab+c".to_string(), R::NoCase(Box::new(cat(cat(ch('a'), R::Plus(Box::new(ch('b')))), ch('c'))))),
        ("(é|€|😀)+a".to_string(), cat(R::Plus(Box::new(alt(alt(ch('é'), ch('€')), ch('😀')))), ch('a'))),
        ("[^ab]+b".to_string(), cat(R::Plus(Box::new(R::Class(vec![('a', 'b')], true))), ch('b'))),
        ("a.c".to_string(), cat(cat(ch('a'), R::Dot), ch('c'))),
        // a broad repeated class (it subsumes token slices) followed by a restrictive rest inside the same lexeme
        ("[^a]*a+".to_string(), cat(R::Star(Box::new(R::Class(vec![('a', 'a')], true))), R::Plus(Box::new(ch('a'))))),
        ("[^a]*ab".to_string(), cat(cat(R::Star(Box::new(R::Class(vec![('a', 'a')], true))), ch('a')), ch('b'))),
        ("[^b]*b[^a]*a+".to_string(), cat(cat(cat(R::Star(Box::new(R::Class(vec![('b', 'b')], true))), ch('b')), R::Star(Box::new(R::Class(vec![('a', 'a')], true)))), R::Plus(Box::new(ch('a'))))),
        ("(ab)?(cd)*e".to_string(), cat(cat(R::Opt(Box::new(lit("ab"))), R::Star(Box::new(lit("cd")))), ch('e'))),
    ]
}

pub fn run(ctx: &Ctx) -> Coverage {
    if let Err(e) = selftest_utf8() {
        ctx.machinery_error(e);
        return Coverage::StateGraph { rule: "utf8 self-test failed".into() };
    }
    let vocab = c04_vocab();
    let vocab_canon = {
        let mut v = c04_vocab();
        v.canonical = true;
        v.name = "RX(45)+canon".into();
        v
    };
    let max_size = ctx.tier.pick(3, 4);
    let mut all: Vec<R> = vec![];
    let mut memo = vec![];
    for s in 1..=max_size {
        all.extend(rexprs(s, true, &mut memo));
    }
    if ctx.quick() {
        // size 4 over the two atoms a, b only (all operators)
        let mut memo4 = vec![];
        fn ab_only(r: &R) -> bool {
            match r {
                R::Char('a') | R::Char('b') => true,
                R::Char(_) | R::Class(..) | R::Dot => false,
                R::Cat(a, b) | R::Alt(a, b) | R::And(a, b) => ab_only(a) && ab_only(b),
                R::Star(a) | R::Plus(a) | R::Opt(a) | R::Rep(a, _, _) | R::Not(a) | R::NoCase(a) => ab_only(a),
                _ => false,
            }
        }
        all.extend(rexprs(4, true, &mut memo4).into_iter().filter(ab_only));
    }
    if !ctx.quick() {
        // size 5 without boolean operators
        let mut memo2 = vec![];
        let v = rexprs(5, false, &mut memo2);
        // every third in canonical order would be sampling; instead restrict the atom set:
        // keep only expressions over {a, [^a], é, 😀} atoms
        let keep = |r: &R| -> bool {
            fn ok(r: &R) -> bool {
                match r {
                    R::Char('a') | R::Char('é') | R::Char('😀') => true,
                    R::Class(v, true) => v == &vec![('a', 'a')],
                    R::Char(_) | R::Class(..) | R::Dot => false,
                    R::Cat(a, b) | R::Alt(a, b) | R::And(a, b) => ok(a) && ok(b),
                    R::Star(a) | R::Plus(a) | R::Opt(a) | R::Rep(a, _, _) | R::Not(a) | R::NoCase(a) => ok(a),
                    _ => false,
                }
            }
            ok(r)
        };
        all.extend(v.into_iter().filter(|r| keep(r)));
    }
    let mut jobs: Vec<RxJob> = all.iter().flat_map(|r| jobs_for(r)).collect();
    for (text, r) in corpus_regexes() {
        jobs.push(RxJob { r: r.clone(), entry: "from_regex_corpus", g: GrammarSpec::Regex(text.clone()) });
    }
    jobs.extend(substring_jobs());
    let fam = substring_family(ctx.quick());
    ctx.count("substring_family_jobs", fam.len() as u64);
    jobs.extend(fam);
    ctx.note(format!("{} regex ASTs, {} (regex, entry point) jobs", all.len(), jobs.len()));
    let f_holder: Vec<Factory> = (0..1).map(|_| Factory::new(&vocab, &Slices::None).unwrap()).collect();
    let _ = f_holder;
    let max_states = ctx.tier.pick(10000, 60000);
    let xcheck_errs: std::sync::Mutex<Vec<String>> = std::sync::Mutex::new(vec![]);
    jobs.par_iter().for_each(|job| {
        if ctx.over_budget() {
            ctx.count("jobs_skipped_budget", 1);
            return;
        }
        // factory per thread would be nicer; building one is cheap for 46 tokens
        let f = Factory::new(&vocab, &Slices::None).unwrap();
        let dfa = compile(&job.r);
        if job.entry == "from_regex" || job.entry == "from_regex_corpus" {
            let text = match &job.g {
                GrammarSpec::Regex(t) => t.clone(),
                _ => unreachable!(),
            };
            match crosscheck_regex_automata(&text, &dfa) {
                Ok(()) => ctx.count("reference_crosschecks_ok", 1),
                Err(e) => {
                    if e.contains("cannot build") {
                        ctx.count("reference_crosscheck_unbuildable", 1);
                    } else {
                        xcheck_errs.lock().unwrap().push(e);
                    }
                }
            }
        }
        // the same product under a canonical tokenizer (forcing active): every job in the quick tier,
        // the thorough tier's larger families only for regexes of size <= 4
        if job.r.size() <= 4 {
            let fc = Factory::new(&vocab_canon, &Slices::None).unwrap();
            let oc = product_check(job, &dfa, &fc, &vocab_canon, max_states);
            if oc.refused.is_none() {
                ctx.count("canonical_products", 1);
                ctx.count("canonical_forced_states", oc.forced_states);
                ctx.states.fetch_add(oc.states, Ordering::Relaxed);
                ctx.transitions.fetch_add(oc.transitions, Ordering::Relaxed);
                ctx.validated.fetch_add(oc.transitions, Ordering::Relaxed);
                if let Some(v) = oc.violation {
                    ctx.violation(v);
                }
            }
        }
        // and with the default token slices switched on (the slicer's shortcuts must not change the language)
        if job.r.size() <= 4 || job.entry == "from_regex_corpus" {
            let fs = Factory::new(&vocab, &Slices::Default).unwrap();
            let os = product_check(job, &dfa, &fs, &vocab, max_states);
            if os.refused.is_none() {
                ctx.count("sliced_products", 1);
                ctx.states.fetch_add(os.states, Ordering::Relaxed);
                ctx.transitions.fetch_add(os.transitions, Ordering::Relaxed);
                ctx.validated.fetch_add(os.transitions, Ordering::Relaxed);
                if let Some(mut v) = os.violation {
                    v.check = format!("{}_with_slices", v.check);
                    v.detail["slices"] = json!("default");
                    ctx.violation(v);
                }
            }
        }
        let out = product_check(job, &dfa, &f, &vocab, max_states);
        ctx.count("jobs_run", 1);
        if let Some(e) = out.refused {
            ctx.count("refused_by_front_end", 1);
            if ctx.get_count("refused_by_front_end") <= 3 {
                ctx.note(format!("refused: {} -> {}", job.g.short(), e.lines().next().unwrap_or("")));
            }
            return;
        }
        ctx.states.fetch_add(out.states, Ordering::Relaxed);
        ctx.transitions.fetch_add(out.transitions, Ordering::Relaxed);
        ctx.validated.fetch_add(out.transitions, Ordering::Relaxed);
        ctx.outcomes_extend(out.outcomes);
        ctx.count("multibyte_tokens_allowed", out.multibyte_allowed);
        ctx.count("partial_char_tokens_allowed", out.partial_char_allowed);
        if out.closure {
            ctx.count("products_closed", 1);
        } else if out.violation.is_none() {
            ctx.count("products_capped", 1);
        }
        if let Some(v) = out.violation {
            ctx.violation(v);
        }
        if job.r.size() >= 3 {
            ctx.sample(json!({"entry": job.entry, "grammar": job.g.short()}));
        }
    });
    for e in xcheck_errs.into_inner().unwrap() {
        ctx.machinery_error(e);
    }
    if ctx.get_count("partial_char_tokens_allowed") == 0 || ctx.get_count("products_closed") == 0 {
        ctx.machinery_error("vacuous run: no product closed or no partial-character token allowed");
    }
    let _ = BTreeMap::<u8, u8>::new();
    Coverage::StateGraph {
        rule: format!("every regex AST with <= {max_size} nodes over atoms a, b, [ab], [^a], ., é, €, 😀 and ops concat | * + ? {{m,n}} (?i) & ~ (quick: plus size 4 over atoms a, b; thorough: size 5 over a reduced atom set), through from_regex, Lark /regex/ terminals and structural Lark terminals; for each: BFS over the product (real engine state, reference DFA state) over a 46-token vocabulary (single bytes, whole and partial UTF-8 characters, multi-character tokens), all tokens compared in every product state; the same product again with the default token slices on, and under a canonical tokenizer, where a state with forced tokens must have exactly one viable next byte in the reference and no match; a closed product is a complete language-equality result over that alphabet; reference DFA cross-checked against regex-automata for every regex that has a text form"),
    }
}
