//! Oracle self-test support: dump (schema, instance, verdict of the harness validator) cases so
//! that tools/validator_selftest.py can compare them with Python jsonschema (Draft 2020-12,
//! formats asserted). Never a verdict on llguidance.
use crate::jsongen;
use crate::refs::json_validate::*;
use serde_json::{json, Value};

fn instances() -> Vec<Value> {
    let mut v = vec![json!(null), json!(true), json!(false), json!(0), json!(1), json!(-1), json!(2), json!(3), json!(5), json!(7), json!(12), json!(21), json!(1.5), json!(2.5), json!(0.5), json!(-0.25), json!(5.0), json!(100), json!(-3)];
    for s in ["", "a", "b", "ab", "abc", "abcd", "abx", "é", "éé", "😀", "x", "€", "ba", "a\nb", "hello", "help", "zz"] {
        v.push(json!(s));
    }
    for s in ["2024-02-29", "2023-02-29", "1900-02-29", "2000-02-29", "2024-04-31", "2024-13-01", "0001-01-01", "12:00:00Z", "23:59:60z", "24:00:00Z", "12:00:00", "12:30:15.25+05:30", "2024-02-29T12:00:00Z", "2023-02-29t12:00:00Z", "P1D", "P1Y2M3D", "PT1H", "P", "P1DT", "P1W", "P1Y1W", "1.2.3.4", "256.1.1.1", "01.1.1.1", "::1", "1::2::3", "1:2:3:4:5:6:7:8", "123e4567-e89b-12d3-a456-426614174000", "123e4567e89b12d3a456426614174000", "a.b", "-a", "a-", "a@b", "a..b@c", "a@[1.2.3.4]"] {
        v.push(json!(s));
    }
    v.push(json!([]));
    v.push(json!([1]));
    v.push(json!([1, 2]));
    v.push(json!([true, null]));
    v.push(json!([true, null, 5]));
    v.push(json!(["a", "ab"]));
    v.push(json!([[null], []]));
    v.push(json!([1, "a"]));
    v.push(json!([1, true]));
    v.push(json!({}));
    v.push(json!({"a": 1}));
    v.push(json!({"a": true}));
    v.push(json!({"a": true, "b": null}));
    v.push(json!({"b": null, "c": 1}));
    v.push(json!({"a": true, "b": null, "c": 2}));
    v.push(json!({"a": 1, "zz": 2}));
    v.push(json!({"zz": true}));
    v.push(json!({"xa": 7}));
    v.push(json!({"x1": 5}));
    v.push(json!({"x1": null}));
    v.push(json!({"a": 1, "x1": null}));
    v.push(json!({"a": 1, "x1": 2, "q": null}));
    v.push(json!({"q": null}));
    v.push(json!([1, true, null]));
    v.push(json!([null]));
    v.push(json!([1, false, 3]));
    v.push(json!({"k": [1, "x"]}));
    v.push(json!({"v": 1, "next": {"v": 2}}));
    v.push(json!({"t": "a", "v": 3}));
    v.push(json!({"n": {"z": null}}));
    v.push(json!({"x-a": true}));
    v.push(json!({"a": null, "x": 1}));
    v.push(json!({"a": null, "xa": 2, "x-a": 1}));
    v.push(json!({"a": true, "b": null, "zz": 1}));
    v.push(json!({"a": null}));
    v.push(json!([true, null, 1]));
    v.push(json!(["x"]));
    v
}

pub fn dump_cases(path: &str) -> i32 {
    let mut schemas = jsongen::all_schemas(false);
    schemas.extend(jsongen::intersection_schemas(true));
    schemas.extend(jsongen::applicator_split_schemas());
    schemas.extend(jsongen::unsat_leaf_schemas());
    for it in crate::corpus::json_items() {
        if let crate::engine::GrammarSpec::Json(s) = it.g {
            schemas.push(s);
        }
    }
    let insts = instances();
    let mut cases = vec![];
    for s in schemas.iter() {
        // Python jsonschema has no notion of x-guidance and refuses some draft-4 forms: keep
        // the schema as is, the script skips what it cannot load
        for i in insts.iter() {
            let v = Validator::new(s);
            let ok = v.valid(s, &from_value(i));
            if v.unknown_format.get() {
                continue;
            }
            cases.push(json!({"schema": s, "instance": i, "harness_valid": ok}));
        }
    }
    std::fs::write(path, serde_json::to_string(&cases).unwrap()).unwrap();
    println!("{} cases written to {}", cases.len(), path);
    0
}

/// python-lark text of a generated grammar (`~m..n` repetition, an explicit empty rule)
fn pylark(e: &crate::gen::G) -> String {
    use crate::gen::G;
    match e {
        G::Lit(b) => format!("\"{}\"", String::from_utf8_lossy(b)),
        G::Class(bs) => format!("/[{}]/", String::from_utf8_lossy(bs)),
        G::Ref(i) => crate::gen::rule_name(*i),
        G::Empty => "empty_".to_string(),
        G::Seq(a, b) => format!("({} {})", pylark(a), pylark(b)),
        G::Alt(a, b) => format!("({} | {})", pylark(a), pylark(b)),
        G::Opt(a) => format!("({})?", pylark(a)),
        G::Star(a) => format!("({})*", pylark(a)),
        G::Plus(a) => format!("({})+", pylark(a)),
        G::Rep(a, m, n) => format!("({})~{}..{}", pylark(a), m, n),
    }
}

/// (grammar, strings, verdicts of the harness's reference Earley recogniser) for
/// tools/earley_selftest.py, which compares them with Python lark's Earley parser.
pub fn dump_earley_cases(path: &str) -> i32 {
    use crate::refs::cfg_earley::{Bnf, Earley};
    let grams: Vec<crate::gen::Gram> = crate::gen::grams(4).into_iter().filter(|g| g.fully_productive()).collect();
    let mut strings: Vec<Vec<u8>> = vec![vec![]];
    let mut layer: Vec<Vec<u8>> = vec![vec![]];
    for _ in 0..5 {
        let mut next = vec![];
        for s in layer.iter() {
            for c in b"abcd" {
                let mut t = s.clone();
                t.push(*c);
                next.push(t);
            }
        }
        strings.extend(next.iter().cloned());
        layer = next;
    }
    let mut cases = vec![];
    for g in grams.iter() {
        let bnf = Bnf::from_gram(g);
        let e = Earley::new(&bnf);
        let start = e.start();
        let verdicts: Vec<bool> = strings.iter().map(|s| e.run(&start, s).map_or(false, |c| e.accepting(&c))).collect();
        let mut text: Vec<String> = g.rules.iter().enumerate().map(|(i, r)| format!("{}: {}", crate::gen::rule_name(i), pylark(r))).collect();
        text.push("empty_: ".to_string());
        cases.push(json!({"grammar": text.join("\n"), "llg_lark": g.lark(), "accepted": strings.iter().zip(verdicts.iter()).filter(|(_, v)| **v).map(|(s, _)| String::from_utf8_lossy(s).to_string()).collect::<Vec<_>>()}));
    }
    let all: Vec<String> = strings.iter().map(|s| String::from_utf8_lossy(s).to_string()).collect();
    std::fs::write(path, serde_json::to_string(&json!({"strings": all, "cases": cases})).unwrap()).unwrap();
    println!("{} grammars x {} strings written to {}", cases.len(), strings.len(), path);
    0
}
