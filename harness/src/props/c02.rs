//! C02 — acceptance depends on bytes, not on the token split (product of two real engines);
//! C10 — slicing never changes a mask (product of sliced and slice-free engines).
use crate::common::*;
use crate::corpus;
use crate::engine::*;
use crate::explore::*;
use crate::jobs::*;
use crate::vocab::{self, VocabSpec};
use serde_json::json;
use std::collections::{BTreeMap, BTreeSet, HashSet};
use std::sync::atomic::Ordering;

fn viol(job: &Job, other: serde_json::Value, check: &str, class: &str, hist: &[u32], what: serde_json::Value, sig: &str) -> Violation {
    Violation {
        check: check.to_string(),
        class: class.to_string(),
        signature: format!("{}|{}|{}|{:?}|{}", check, job.item.name, job.vocab.name, hist, sig),
        detail: json!({
            "kind": "engine_history",
            "grammar": job.item.g.to_json(),
            "vocab": job.vocab.to_json(),
            "slices": "default",
            "other_engine": other,
            "history": hist,
            "history_bytes": hist.iter().map(|t| show(&job.vocab.tokens[*t as usize])).collect::<Vec<_>>(),
            "what": what,
        }),
    }
}

pub struct PairOut {
    pub stats: ExploreStats,
    pub counters: BTreeMap<String, u64>,
    pub outcomes: HashSet<u64>,
    pub violation: Option<Violation>,
    pub inadmissible: bool,
}

/// single-byte vocabulary over all bytes occurring in V's ordinary tokens
fn byte_vocab_for(v: &VocabSpec) -> VocabSpec {
    let mut bs: BTreeSet<u8> = BTreeSet::new();
    for t in v.tokens.iter() {
        if t.first() != Some(&0xFF) {
            bs.extend(t.iter().copied());
        }
    }
    vocab::bytes_vocab(&bs.into_iter().collect::<Vec<_>>())
}

pub fn run_c02_job(job: &Job, cfg: &ExploreCfg) -> PairOut {
    let mut out = PairOut { stats: ExploreStats::default(), counters: BTreeMap::new(), outcomes: HashSet::new(), violation: None, inadmissible: false };
    let bv = byte_vocab_for(&job.vocab);
    let (Ok(fv), Ok(fb)) = (Factory::new(&job.vocab, &Slices::Default), Factory::new(&bv, &Slices::Default)) else {
        out.inadmissible = true;
        return out;
    };
    let (Ok(rv), Ok(rb)) = (fv.try_matcher(&job.item.g), fb.try_matcher(&job.item.g)) else {
        out.inadmissible = true;
        return out;
    };
    let trie_v = fv.env.tok_trie();
    let trie_b = fb.env.tok_trie();
    let nv = fv.n_vocab as u32;
    // map each V token to its B token sequence (None for specials / EOS / empty)
    let eos_v = trie_v.eos_token();
    let eos_b = trie_b.eos_token();
    let to_b: Vec<Option<Vec<u32>>> = (0..nv)
        .map(|t| {
            let bytes = trie_v.token(t);
            if t == eos_v || bytes.is_empty() || bytes[0] == 0xFF {
                None
            } else {
                bytes.iter().map(|b| trie_b.token_id(&[*b])).collect::<Option<Vec<u32>>>()
            }
        })
        .collect();
    let mut violation = None;
    let mut inadmissible = false;
    let mut cnt: BTreeMap<String, u64> = BTreeMap::new();
    let mut outcomes = HashSet::new();
    let other = json!({"vocab": bv.to_json()});
    let stats = explore_pair(rv, rb, cfg, |a, b, hist, _depth| {
        let mut c = |k: &str| *cnt.entry(k.to_string()).or_insert(0) += 1;
        if a.is_error() || b.is_error() {
            violation = Some(viol(job, other.clone(), "engine_error", "engine-error-on-legal-history", hist, json!({"a": a.get_error(), "b": b.get_error()}), ""));
            return None;
        }
        if a.is_stopped() != b.is_stopped() {
            violation = Some(viol(job, other.clone(), "stop_differs", "split-dependent-acceptance", hist, json!({"V_stopped": a.is_stopped(), "B_stopped": b.is_stopped()}), ""));
            return None;
        }
        if a.is_stopped() {
            return Some(vec![]);
        }
        let (ma, mb) = match (a.compute_mask(), b.compute_mask()) {
            (Ok(x), Ok(y)) => (x, y),
            (Err(e), Ok(_)) | (Ok(_), Err(e)) => {
                if crate::props::c01::is_resource_limit(&e.to_string()) {
                    inadmissible = true;
                    return None;
                }
                violation = Some(viol(job, other.clone(), "mask_error_one_side", "split-dependent-acceptance", hist, json!({"err": e.to_string()}), ""));
                return None;
            }
            (Err(_), Err(_)) => return Some(vec![]),
        };
        let (acc_a, acc_b) = (a.is_accepting().unwrap_or(false), b.is_accepting().unwrap_or(false));
        if acc_a != acc_b || ma.is_allowed(eos_v) != mb.is_allowed(eos_b) {
            violation = Some(viol(job, other.clone(), "accepting_differs", "split-dependent-acceptance", hist, json!({"V": acc_a, "B": acc_b}), ""));
            return None;
        }
        let mut succ = vec![];
        let mut scratch = b.clone();
        for t in 0..nv {
            let Some(bs) = &to_b[t as usize] else { continue };
            let n = scratch.validate_tokens(bs).unwrap_or(usize::MAX);
            let byte_ok = n == bs.len();
            let in_mask = ma.is_allowed(t);
            if in_mask != byte_ok {
                violation = Some(viol(job, other.clone(), "token_vs_bytes", "split-dependent-acceptance", hist,
                    json!({"token": t, "token_bytes": show(trie_v.token(t)), "in_mask_V": in_mask, "bytes_validated_on_B": n, "len": bs.len()}), &format!("t{t}")));
                return None;
            }
            if bs.len() == 1 && mb.is_allowed(bs[0]) != in_mask {
                violation = Some(viol(job, other.clone(), "single_byte_masks_differ", "split-dependent-acceptance", hist,
                    json!({"byte": show(trie_v.token(t)), "V": in_mask, "B": mb.is_allowed(bs[0])}), &format!("t{t}")));
                return None;
            }
            if in_mask {
                if bs.len() >= 2 {
                    c("multibyte_allowed");
                }
                succ.push((t, bs.clone()));
            }
        }
        if ma.is_allowed(eos_v) {
            succ.push((eos_v, vec![eos_b]));
        }
        outcomes.insert(mask_hash(&ma) ^ acc_a as u64);
        Some(succ)
    });
    if violation.is_none() && !inadmissible {
        if let Some((h, t, e)) = stats.failed_commits.first() {
            if crate::props::c01::is_resource_limit(e) {
                inadmissible = true;
            } else {
                violation = Some(viol(job, other.clone(), "pair_commit_failed", "split-dependent-acceptance", h, json!({"token": t, "err": e}), &format!("t{t}")));
            }
        }
    }
    out.stats = stats;
    out.counters = cnt;
    out.outcomes = outcomes;
    out.violation = violation;
    out.inadmissible = inadmissible;
    out
}

pub fn run_c02(ctx: &Ctx) -> Coverage {
    let mut items = corpus::all_items();
    items.extend(crate::gen::lark_family(ctx.tier.pick(4, 5)));
    let kinds: Vec<VKind> = if ctx.quick() { vec![VKind::Multi2, VKind::Multi3] } else { vec![VKind::Multi2, VKind::Multi3, VKind::Tik(400)] };
    let jobs = make_jobs(&items, &kinds);
    let depth = ctx.tier.pick(6, 10);
    let max_states = ctx.tier.pick(3000, 30000);
    run_jobs(ctx, &jobs, |job| {
        let big = job.vocab.n() > 200;
        let cfg = ExploreCfg { max_depth: if big { 3 } else { depth }, max_states: if big { max_states / 10 } else { max_states }, use_key: true };
        let out = run_c02_job(job, &cfg);
        absorb(ctx, job, out);
    });
    if ctx.get_count("multibyte_allowed") == 0 {
        ctx.machinery_error("vacuous run: no multi-byte token was ever allowed");
    }
    Coverage::StateGraph {
        rule: format!("lock-step BFS over pairs (engine over multi-byte vocabulary V after history h, engine over the single-byte vocabulary after bytes(h)), dedup on the pair of state keys, depth {depth}, <= {max_states} pairs per job; in every pair every ordinary token of V is compared with byte-wise validation on B, single-byte masks and accepting/stop flags must agree"),
    }
}

fn absorb(ctx: &Ctx, job: &Job, out: PairOut) {
    if out.inadmissible {
        ctx.count("jobs_inadmissible", 1);
        return;
    }
    ctx.states.fetch_add(out.stats.states, Ordering::Relaxed);
    ctx.transitions.fetch_add(out.stats.transitions, Ordering::Relaxed);
    ctx.validated.fetch_add(out.stats.transitions, Ordering::Relaxed);
    ctx.add_counts(&out.counters);
    ctx.outcomes_extend(out.outcomes);
    if out.stats.closure_complete {
        ctx.count("jobs_closure_complete", 1);
    }
    if out.stats.cap_hit {
        ctx.count("jobs_state_cap_hit", 1);
    }
    ctx.count_max("max_depth_completed", out.stats.depth_completed as u64);
    if let Some(v) = out.violation {
        ctx.violation(v);
    }
    ctx.sample(json!({"grammar": job.item.g.short(), "vocab": job.vocab.name, "n_tokens": job.vocab.n()}));
}

// ---------------------------------------------------------------------------------------
// C10

pub fn slice_menu() -> Vec<String> {
    vec![
        "[a-z]{1,2}".to_string(),
        "[a-z]{1,5}".to_string(),
        "[a-z]+".to_string(),
        "[0-9]+".to_string(),
        r#"[^"\\\x00-\x1F\x7F]{1,3}"#.to_string(),
        r#"[^"\\\x00-\x1F\x7F]+"#.to_string(),
        "[a-cx]+".to_string(),
        "(ab|b)+".to_string(),
    ]
}

pub fn slice_lists(max_len: usize) -> Vec<Slices> {
    let menu = slice_menu();
    let mut out = vec![Slices::Default];
    for i in 0..menu.len() {
        out.push(Slices::List(vec![menu[i].clone()]));
    }
    if max_len >= 2 {
        for i in 0..menu.len() {
            for j in 0..menu.len() {
                if i != j {
                    out.push(Slices::List(vec![menu[i].clone(), menu[j].clone()]));
                }
            }
        }
    }
    if max_len >= 3 {
        for i in 0..menu.len() {
            for j in 0..menu.len() {
                for k in 0..menu.len() {
                    if i != j && j != k && i != k && (i + 2 * j + 3 * k) % 5 == 0 {
                        out.push(Slices::List(vec![menu[i].clone(), menu[j].clone(), menu[k].clone()]));
                    }
                }
            }
        }
    }
    out
}

pub fn run_c10_job(job: &Job, slices: &Slices, cfg: &ExploreCfg) -> PairOut {
    let mut out = PairOut { stats: ExploreStats::default(), counters: BTreeMap::new(), outcomes: HashSet::new(), violation: None, inadmissible: false };
    let (Ok(fs), Ok(fn_)) = (Factory::new(&job.vocab, slices), Factory::new(&job.vocab, &Slices::None)) else {
        out.inadmissible = true; // slice list refused by the factory
        return out;
    };
    let (Ok(rs), Ok(rn)) = (fs.try_matcher(&job.item.g), fn_.try_matcher(&job.item.g)) else {
        out.inadmissible = true;
        return out;
    };
    let mut violation = None;
    let mut inadmissible = false;
    let mut cnt: BTreeMap<String, u64> = BTreeMap::new();
    let mut outcomes = HashSet::new();
    let other = json!({"slices_subject": slices.to_json(), "slices_reference": "none"});
    let stats = explore_pair(rs, rn, cfg, |a, b, hist, _d| {
        let mut c = |k: &str| *cnt.entry(k.to_string()).or_insert(0) += 1;
        if a.is_stopped() || b.is_stopped() {
            if a.is_stopped() != b.is_stopped() {
                violation = Some(viol(job, other.clone(), "stop_differs", "slicer-changes-mask", hist, json!({}), &format!("{:?}", slices)));
                return None;
            }
            return Some(vec![]);
        }
        let (ma, mb) = match (a.compute_mask(), b.compute_mask()) {
            (Ok(x), Ok(y)) => (x, y),
            (Err(e), Ok(_)) | (Ok(_), Err(e)) => {
                if crate::props::c01::is_resource_limit(&e.to_string()) {
                    inadmissible = true;
                    return None;
                }
                violation = Some(viol(job, other.clone(), "mask_error_one_side", "slicer-changes-mask", hist, json!({"err": e.to_string()}), &format!("{:?}", slices)));
                return None;
            }
            (Err(_), Err(_)) => return Some(vec![]),
        };
        if ma.as_slice() != mb.as_slice() {
            let la = mask_to_vec(&ma);
            let lb = mask_to_vec(&mb);
            let only_sliced: Vec<u32> = la.iter().filter(|t| !lb.contains(t)).copied().collect();
            let only_plain: Vec<u32> = lb.iter().filter(|t| !la.contains(t)).copied().collect();
            violation = Some(viol(job, other.clone(), "masks_differ", "slicer-changes-mask", hist,
                json!({"only_with_slices": only_sliced.iter().map(|t| (*t, show(&job.vocab.tokens[*t as usize]))).collect::<Vec<_>>(),
                       "only_without_slices": only_plain.iter().map(|t| (*t, show(&job.vocab.tokens[*t as usize]))).collect::<Vec<_>>()}), &format!("{:?}", slices)));
            return None;
        }
        if a.is_accepting().unwrap_or(false) != b.is_accepting().unwrap_or(false) {
            violation = Some(viol(job, other.clone(), "accepting_differs", "slicer-changes-mask", hist, json!({}), &format!("{:?}", slices)));
            return None;
        }
        if a.last_step_stats().map(|s| s.slices_applied).unwrap_or(0) > 0 {
            c("slices_applied_states");
        }
        outcomes.insert(mask_hash(&ma));
        Some(mask_to_vec(&ma).into_iter().map(|t| (t, vec![t])).collect())
    });
    if violation.is_none() && !inadmissible {
        if let Some((h, t, e)) = stats.failed_commits.first() {
            if crate::props::c01::is_resource_limit(e) {
                inadmissible = true;
            } else {
                violation = Some(viol(job, other.clone(), "pair_commit_failed", "slicer-changes-mask", h, json!({"token": t, "err": e}), &format!("t{t}")));
            }
        }
    }
    out.stats = stats;
    out.counters = cnt;
    out.outcomes = outcomes;
    out.violation = violation;
    out.inadmissible = inadmissible;
    out
}

/// grammars that stress the slicer: strings with bounds / patterns / formats, lazy lexemes, & / ~
fn c10_items() -> Vec<corpus::Item> {
    let mut items = corpus::all_items();
    items.extend(corpus::special_items());
    items.extend(corpus::option_items());
    let extra = vec![
        ("sl-maxlen", json!({"type":"string","maxLength":4}), vec!["\"abcd\"", "\"a\\nb\""]),
        ("sl-minmax", json!({"type":"string","minLength":2,"maxLength":5}), vec!["\"abcde\""]),
        ("sl-pattern", json!({"type":"string","pattern":"^[a-z]{1,3}[0-9]$"}), vec!["\"abc1\""]),
        ("sl-obj-str", json!({"type":"object","properties":{"k":{"type":"string","maxLength":3}},"required":["k"],"additionalProperties":false}), vec!["{\"k\":\"abc\"}"]),
        ("sl-enum-str", json!({"type":"array","items":{"type":"string","maxLength":2},"maxItems":2}), vec!["[\"ab\",\"c\"]"]),
        ("sl-time", json!({"type":"string","format":"time"}), vec!["\"12:34:56Z\""]),
    ];
    for (n, v, s) in extra {
        items.push(corpus::Item { name: n.to_string(), g: GrammarSpec::Json(v), sentences: s.iter().map(|x| x.as_bytes().to_vec()).collect(), core: true });
    }
    let larks = vec![
        ("sl-lark-az", "start: \"<\" W \">\"\nW: /[a-z]{2,6}/", vec!["<abcdef>"]),
        ("sl-lark-alnum", "start: \"<\" W \">\"\nW: /[a-z0-9]{1,6}/", vec!["<ab12c3>", "<1a>"]),
        ("sl-lark-alnum-open", "start: W \";\" W\nW: /[a-z0-9 ]+/", vec!["ab 12;c3"]),
        ("sl-lark-num", "start: N \"x\" N\nN: /[0-9]{1,4}/", vec!["12x3456"]),
        ("sl-lark-andnot", "start: T \".\"\nT: /[a-z]+/ & ~/.*ab.*/", vec!["bacb."]),
        ("sl-lark-lazy", "start: h \"!\"\nh[lazy]: /[a-z]*x/", vec!["abx!"]),
        // lexemes that subsume one sibling slice but not the other while tokens of the other are allowed (see also corpus no-cr, comment, text-tab)
        ("sl-lark-dig-ac", "start: W \";\"\nW: /[0-9a-c]+/", vec!["0a1b;", "ab12c;"]),
        ("sl-lark-az-dig3", "start: W \";\"\nW: /[a-z]+[0-9]{0,3}/", vec!["ab12;", "abc;"]),
    ];
    for (n, g, s) in larks {
        items.push(corpus::Item { name: n.to_string(), g: GrammarSpec::Lark(g.to_string()), sentences: s.iter().map(|x| x.as_bytes().to_vec()).collect(), core: true });
    }
    items
}

/// One sliced factory serving TWO different grammars whose mask computations alternate (batched decoding):
/// the slicer and everything else the factory owns is shared by the parsers it creates, while lexer state ids
/// are private to each parser. Every ordered pair of the slicer-stress grammars over one common vocabulary;
/// joint walk to depth 4 (<= 2 successors per engine and step); both masks are compared with engines from a
/// slice-free factory in every joint state.
fn run_c10_shared_factory(ctx: &Ctx) {
    use rayon::prelude::*;
    let items: Vec<corpus::Item> = c10_items().into_iter().filter(|i| i.name.starts_with("sl-")).collect();
    let sentences: Vec<Vec<u8>> = items.iter().flat_map(|i| i.sentences.clone()).collect();
    let alpha: Vec<u8> = b"abcdxyz0123456789\"\\ {}:,[]<>!k\n-Z".to_vec();
    let vocab = make_vocab(VKind::Multi3, &alpha, b"~", &sentences);
    let lists = vec![Slices::Default, Slices::List(vec!["[a-z]+".to_string(), "[0-9]+".to_string()]), Slices::List(vec!["[a-z]{1,2}".to_string()])];
    let depth = ctx.tier.pick(4, 6);
    let ni = items.len();
    let pairs: Vec<(usize, usize, usize)> = (0..lists.len()).flat_map(|l| (0..ni).flat_map(move |i| (0..ni).map(move |j| (l, i, j)))).filter(|(_, i, j)| i != j).collect();
    pairs.par_iter().for_each(|(l, i, j)| {
        if ctx.has_violations() || ctx.over_budget() {
            return;
        }
        let (Ok(fs), Ok(fn_)) = (Factory::new(&vocab, &lists[*l]), Factory::new(&vocab, &Slices::None)) else { return };
        let (gi, gj) = (&items[*i].g, &items[*j].g);
        let (Ok(e1), Ok(e2), Ok(r1), Ok(r2)) = (fs.try_matcher(gi), fs.try_matcher(gj), fn_.try_matcher(gi), fn_.try_matcher(gj)) else {
            ctx.count("shared_factory_pairs_inadmissible", 1);
            return;
        };
        ctx.count("shared_factory_pairs", 1);
        let mut stack = vec![(e1, e2, r1, r2, Vec::<(u32, u32)>::new())];
        while let Some((mut e1, mut e2, mut r1, mut r2, hist)) = stack.pop() {
            crate::watchdog::beat();
            if e1.is_stopped() || e2.is_stopped() || r1.is_stopped() || r2.is_stopped() {
                continue;
            }
            // alternate: grammar 1, grammar 2, grammar 1 again
            let m1 = e1.compute_mask();
            let m2 = e2.compute_mask();
            let m1b = e1.clone().compute_mask();
            let (x1, x2) = (r1.compute_mask(), r2.compute_mask());
            ctx.states.fetch_add(1, Ordering::Relaxed);
            ctx.validated.fetch_add(1, Ordering::Relaxed);
            let (Ok(m1), Ok(m2), Ok(m1b), Ok(x1), Ok(x2)) = (m1, m2, m1b, x1, x2) else { continue };
            if e1.last_step_stats().map(|s| s.slices_applied).unwrap_or(0) > 0 || e2.last_step_stats().map(|s| s.slices_applied).unwrap_or(0) > 0 {
                ctx.count("shared_factory_slices_applied_states", 1);
            }
            for (which, got, exp) in [(1, &m1, &x1), (2, &m2, &x2), (1, &m1b, &x1)] {
                if got.as_slice() != exp.as_slice() {
                    let (la, lb) = (mask_to_vec(got), mask_to_vec(exp));
                    let only_sliced: Vec<u32> = la.iter().filter(|t| !lb.contains(t)).copied().collect();
                    let only_plain: Vec<u32> = lb.iter().filter(|t| !la.contains(t)).copied().collect();
                    ctx.violation(Violation {
                        check: "shared_factory_masks_differ".into(),
                        class: "slicer-changes-mask".into(),
                        signature: format!("shared|{}|{}|{:?}|{:?}|{}", items[*i].name, items[*j].name, lists[*l], hist, which),
                        detail: json!({"kind": "shared_factory", "grammar_1": gi.to_json(), "grammar_2": gj.to_json(), "vocab": vocab.to_json(), "slices": lists[*l].to_json(), "joint_history": hist, "engine": which,
                            "only_with_slices": only_sliced.iter().map(|t| (*t, show(&vocab.tokens[*t as usize]))).collect::<Vec<_>>(),
                            "only_without_slices": only_plain.iter().map(|t| (*t, show(&vocab.tokens[*t as usize]))).collect::<Vec<_>>()}),
                    });
                    return;
                }
            }
            if hist.len() >= depth {
                continue;
            }
            let pick = |m: &toktrie::SimpleVob| -> Vec<u32> {
                let v = mask_to_vec(m);
                match v.len() {
                    0 => vec![],
                    1 => vec![v[0]],
                    n => vec![v[n / 3], v[n - 1]],
                }
            };
            for t1 in pick(&m1) {
                for t2 in pick(&m2) {
                    let (mut a, mut b, mut c, mut d) = (e1.clone(), e2.clone(), r1.clone(), r2.clone());
                    if a.consume_token(t1).is_err() || c.consume_token(t1).is_err() || b.consume_token(t2).is_err() || d.consume_token(t2).is_err() {
                        continue;
                    }
                    ctx.transitions.fetch_add(2, Ordering::Relaxed);
                    let mut h = hist.clone();
                    h.push((t1, t2));
                    stack.push((a, b, c, d, h));
                }
            }
        }
    });
}

pub fn run_c10(ctx: &Ctx) -> Coverage {
    run_c10_shared_factory(ctx);
    ctx.note(format!("shared-factory pass done at {:.1}s", ctx.elapsed()));
    let mut items = c10_items();
    if !ctx.quick() {
        items.extend(crate::gen::lark_family(3));
    }
    let kinds: Vec<VKind> = if ctx.quick() { vec![VKind::Multi3] } else { vec![VKind::Multi2, VKind::Multi3, VKind::Tik(800)] };
    let jobs = make_jobs(&items, &kinds);
    let mut lists = slice_lists(ctx.tier.pick(1, 3));
    if ctx.quick() {
        // sibling and nested pairs (the thorough tier has every ordered pair of the menu)
        for (a, b) in [("[a-z]+", "[0-9]+"), ("[0-9]+", "[a-z]+"), ("[a-cx]+", "[0-9]+"), ("[a-z]+", "[a-z]{1,2}"), ("[ \\n\\t]+", "[a-z]+"), ("[a-z]+", "[ \\n\\t]+")] {
            lists.push(Slices::List(vec![a.to_string(), b.to_string()]));
        }
        lists.push(Slices::List(vec!["[ \\n\\t]+".to_string(), "[a-z]{1,2}".to_string(), "[a-z]+".to_string(), "[0-9]+".to_string()]));
    }
    let depth = ctx.tier.pick(6, 9);
    let max_states = ctx.tier.pick(1500, 12000);
    let pairs: Vec<(usize, usize)> = (0..jobs.len()).flat_map(|j| (0..lists.len()).map(move |l| (j, l))).collect();
    run_jobs(ctx, &pairs, |(j, l)| {
        let job = &jobs[*j];
        let big = job.vocab.n() > 200;
        let cfg = ExploreCfg { max_depth: if big { 3 } else { depth }, max_states: if big { max_states / 8 } else { max_states }, use_key: true };
        let out = run_c10_job(job, &lists[*l], &cfg);
        if out.inadmissible {
            ctx.count("slice_lists_refused_or_inadmissible", 1);
        }
        absorb(ctx, job, out);
    });
    if ctx.get_count("slices_applied_states") == 0 {
        ctx.machinery_error("vacuous run: the slicer was never applied");
    }
    ctx.count("slice_lists", lists.len() as u64);
    Coverage::StateGraph {
        rule: format!("lock-step BFS over pairs (engine from a sliced factory, engine from the slice-free factory) on the same vocabulary, {} slice lists (default JSON slices + ordered lists from a menu of 8 regexes), depth {depth}, <= {max_states} pairs per job; masks compared word for word in every pair; plus the shared-factory pass: one sliced factory serving two different grammars with alternating mask computations (every ordered pair of the slicer-stress grammars, 3 slice lists, joint depth 4/6), both masks compared with slice-free engines in every joint state", lists.len()),
    }
}
