//! Plain re-execution of a violation artefact (no explorer).
use crate::common::show;
use crate::engine::*;
use crate::vocab::VocabSpec;
use serde_json::Value;

pub fn replay_file(path: &str) -> i32 {
    let text = match std::fs::read_to_string(path) {
        Ok(t) => t,
        Err(e) => {
            eprintln!("cannot read {path}: {e}");
            return 2;
        }
    };
    let v: Value = serde_json::from_str(&text).unwrap();
    let d = &v["detail"];
    println!("property={} check={} class={}", v["property"], v["check"], v["class"]);
    println!("signature={}", v["signature"]);
    match d["kind"].as_str() {
        Some("engine_history") => replay_engine_history(d),
        Some("opseq") => replay_opseq(d),
        Some("legal_calls") => replay_legal_calls(d),
        Some("schedule") => crate::props::c14::replay_schedule(d),
        _ => {
            println!("detail: {}", serde_json::to_string_pretty(d).unwrap());
            0
        }
    }
}

fn replay_engine_history(d: &Value) -> i32 {
    let g = GrammarSpec::from_json(&d["grammar"]);
    let vocab = VocabSpec::from_json(&d["vocab"]);
    let slices = Slices::from_json(&d["slices"]);
    let f = Factory::new(&vocab, &slices).unwrap();
    let mut m = f.matcher(&g);
    println!("grammar: {}", g.short());
    println!("vocab: {} ({} tokens, canonical={})", vocab.name, vocab.n(), vocab.canonical);
    let hist: Vec<u32> = d["history"].as_array().map(|a| a.iter().map(|x| x.as_u64().unwrap() as u32).collect()).unwrap_or_default();
    for t in hist.iter() {
        let r = m.consume_token(*t);
        println!("commit {} {:?} -> {}", t, show(&vocab.tokens[*t as usize]), if r.is_ok() { "ok".to_string() } else { format!("ERR {}", r.unwrap_err()) });
    }
    let mut probe = m.clone();
    match probe.compute_mask() {
        Ok(mask) => {
            let l = mask_to_vec(&mask);
            println!("mask: {:?}", l.iter().map(|t| (*t, show(&vocab.tokens[*t as usize]))).collect::<Vec<_>>());
        }
        Err(e) => println!("mask: ERR {e}"),
    }
    println!("accepting: {:?}", m.clone().is_accepting().ok());
    println!("ff_bytes: {:?}", show(&m.clone().compute_ff_bytes()));
    println!("ff_tokens: {:?}", m.clone().compute_ff_tokens());
    for t in 0..vocab.n() as u32 {
        let v = m.clone().validate_tokens(&[t]).unwrap_or(99);
        let c = m.clone().consume_token(t).is_ok();
        if v > 0 || c {
            println!("  token {} {:?}: validate={} commit={}", t, show(&vocab.tokens[t as usize]), v, c);
        }
    }
    println!("reported: {}", d["what"]);
    0
}

fn replay_opseq(d: &Value) -> i32 {
    let g = GrammarSpec::from_json(&d["grammar"]);
    let vocab = VocabSpec::from_json(&d["vocab"]);
    let slices = Slices::from_json(&d["slices"]);
    let f = Factory::new(&vocab, &slices).unwrap();
    println!("grammar: {}", g.short());
    println!("vocab: {} ({} tokens, canonical={}): {:?}", vocab.name, vocab.n(), vocab.canonical, vocab.tokens.iter().map(|t| show(t)).collect::<Vec<_>>());
    let ops: Vec<String> = d["ops"].as_array().unwrap().iter().map(|x| x.as_str().unwrap().to_string()).collect();
    let (got, exp, hist) = crate::opseq::replay_ops(&f, &g, vocab.canonical, &ops);
    println!("logical history: {:?}", hist);
    println!("subject : {:?}", got);
    println!("fresh   : {:?}", exp);
    if Some(&got) != exp.as_ref() {
        println!("REPRODUCED: subject differs from the fresh engine");
        1
    } else {
        println!("not reproduced at the final state (the artefact may describe a query result; see 'what')");
        println!("reported: {}", d["what"]);
        0
    }
}

fn replay_legal_calls(d: &Value) -> i32 {
    let g = GrammarSpec::from_json(&d["grammar"]);
    let vocab = VocabSpec::from_json(&d["vocab"]);
    let slices = Slices::from_json(&d["slices"]);
    let f = Factory::new(&vocab, &slices).unwrap();
    let mut m = f.matcher(&g);
    println!("grammar: {}", g.short());
    println!("vocab: {} ({} tokens)", vocab.name, vocab.n());
    for op in d["ops"].as_array().cloned().unwrap_or_default() {
        let op = op.as_str().unwrap_or("").to_string();
        let (k, a) = op.split_once(':').unwrap_or(("", ""));
        let n: u32 = a.parse().unwrap_or(0);
        let mut probe = m.clone();
        let mask_ok = probe.compute_mask().map(|mk| mk.is_allowed(n)).ok();
        let r = match k {
            "c" => m.consume_token(n).map_err(|e| e.to_string()),
            "r" => m.rollback(n as usize).map_err(|e| e.to_string()),
            _ => Err("unknown op".to_string()),
        };
        match k {
            "c" => println!("commit {} {:?} (in mask: {:?}) -> {}", n, show(&vocab.tokens[n as usize]), mask_ok, r.map(|_| "ok".to_string()).unwrap_or_else(|e| format!("ERR {}", e.lines().next().unwrap_or("")))),
            _ => println!("rollback {} -> {}", n, r.map(|_| "ok".to_string()).unwrap_or_else(|e| format!("ERR {}", e.lines().next().unwrap_or("")))),
        }
    }
    println!("reported: {}", d["what"]);
    0
}
