//! C09 — repetition counts and length bounds are exact.
use crate::common::*;
use crate::engine::*;
use crate::vocab;
use rayon::prelude::*;
use serde_json::{json, Value};
use std::sync::atomic::{AtomicU64, Ordering};

#[derive(Clone, Debug)]
struct Case {
    level: &'static str,
    g: GrammarSpec,
    /// bytes before the repeated units, one unit (cycled list), bytes after
    prefix: Vec<u8>,
    units: Vec<Vec<u8>>,
    sep: Vec<u8>,
    suffix: Vec<u8>,
    m: usize,
    n: Option<usize>,
}

fn bytes_ok(f: &Factory, m: &mut llguidance::Matcher, bytes: &[u8]) -> bool {
    crate::watchdog::beat();
    let trie = f.env.tok_trie();
    for b in bytes {
        let Some(t) = trie.token_id(&[*b]) else { return false };
        if m.is_stopped() {
            return false;
        }
        // must be in the mask AND commit
        match m.compute_mask() {
            Ok(mask) => {
                if !mask.is_allowed(t) {
                    return false;
                }
            }
            Err(_) => return false,
        }
        if m.consume_token(t).is_err() {
            return false;
        }
    }
    true
}

fn complete(m: &mut llguidance::Matcher) -> bool {
    if m.is_stopped() {
        return m.stop_reason().is_ok();
    }
    m.is_accepting().unwrap_or(false)
}

fn body(c: &Case, k: usize) -> Vec<u8> {
    let mut v = c.prefix.clone();
    for i in 0..k {
        if i > 0 {
            v.extend_from_slice(&c.sep);
        }
        v.extend_from_slice(&c.units[i % c.units.len()]);
    }
    v
}

fn cases(nmax: usize, quick: bool) -> Vec<Case> {
    let mut out = vec![];
    let a = || vec![b"a".to_vec()];
    let mut bounds: Vec<(usize, Option<usize>)> = vec![];
    for n in 0..=nmax {
        for m in 0..=n {
            bounds.push((m, Some(n)));
        }
    }
    for m in 0..=nmax.min(20) {
        bounds.push((m, None));
    }
    for (m, n) in bounds.iter().copied() {
        let rep = match n {
            Some(n) => format!("{{{},{}}}", m, n),
            None => format!("{{{},}}", m),
        };
        out.push(Case { level: "rule", g: GrammarSpec::Lark(format!("start: \"a\"{rep}")), prefix: vec![], units: a(), sep: vec![], suffix: vec![], m, n });
        out.push(Case { level: "rule-2sym", g: GrammarSpec::Lark(format!("start: (\"a\" \"b\"){rep} \"c\"")), prefix: vec![], units: vec![b"ab".to_vec()], sep: vec![], suffix: b"c".to_vec(), m, n });
        out.push(Case { level: "terminal", g: GrammarSpec::Lark(format!("start: T\nT: \"a\"{rep}")), prefix: vec![], units: a(), sep: vec![], suffix: vec![], m, n });
        out.push(Case { level: "regex", g: GrammarSpec::Lark(format!("start: /a{rep}/")), prefix: vec![], units: a(), sep: vec![], suffix: vec![], m, n });
        out.push(Case { level: "from_regex", g: GrammarSpec::Regex(format!("(ab){rep}c")), prefix: vec![], units: vec![b"ab".to_vec()], sep: vec![], suffix: b"c".to_vec(), m, n });
        if m == n.unwrap_or(usize::MAX) {
            out.push(Case { level: "rule-exact", g: GrammarSpec::Lark(format!("start: \"a\"{{{}}} \"b\"", m)), prefix: vec![], units: a(), sep: vec![], suffix: b"b".to_vec(), m, n });
        }
        // JSON
        let mut arr = json!({"type": "array", "items": {"type": "null"}, "minItems": m, "x-guidance": {"whitespace_flexible": false}});
        let mut st = json!({"type": "string", "minLength": m});
        let mut ob = json!({"type": "object", "additionalProperties": {"type": "null"}, "minProperties": m, "x-guidance": {"whitespace_flexible": false}});
        if let Some(n) = n {
            arr["maxItems"] = json!(n);
            st["maxLength"] = json!(n);
            ob["maxProperties"] = json!(n);
        }
        out.push(Case { level: "json-items", g: GrammarSpec::Json(arr), prefix: b"[".to_vec(), units: vec![b"null".to_vec()], sep: b",".to_vec(), suffix: b"]".to_vec(), m, n });
        let keys: Vec<Vec<u8>> = (0..50).map(|i| format!("\"k{}\":null", i).into_bytes()).collect();
        out.push(Case { level: "json-properties", g: GrammarSpec::Json(ob), prefix: b"{".to_vec(), units: keys, sep: b",".to_vec(), suffix: b"}".to_vec(), m, n });
        let unit_sets: Vec<(&'static str, Vec<Vec<u8>>)> = vec![
            ("json-length-ascii", vec![b"a".to_vec()]),
            ("json-length-2byte", vec!["é".as_bytes().to_vec()]),
            ("json-length-4byte", vec!["😀".as_bytes().to_vec()]),
            ("json-length-escapes", vec![b"\\n".to_vec(), b"\\\"".to_vec(), b"\\u0001".to_vec(), b"\\\\".to_vec()]),
            ("json-length-mixed", vec![b"a".to_vec(), "é".as_bytes().to_vec(), b"\\n".to_vec(), "😀".as_bytes().to_vec(), b"\\u001f".to_vec()]),
        ];
        for (lvl, units) in unit_sets {
            if quick && (lvl == "json-length-2byte") && m % 2 == 1 {
                continue;
            }
            out.push(Case { level: lvl, g: GrammarSpec::Json(st.clone()), prefix: b"\"".to_vec(), units, sep: vec![], suffix: b"\"".to_vec(), m, n });
        }
    }
    // counted constructs in a grammar that is compiled AFTER another grammar of the same document (nested
    // %json / %lark inside a Lark parent): the parent's options (allow_invalid_utf8 = byte-mode regexes) must not
    // leak into the nested grammar, whose lengths are still counted in characters
    for n in 0..=5usize {
        for m in 0..=n {
            for (oi, opt) in ["", "%llguidance {\"allow_invalid_utf8\": true}\n"].iter().enumerate() {
                if oi == 0 && (m + n) % 3 != 0 {
                    continue;
                }
                let st = json!({"type": "string", "minLength": m, "maxLength": n});
                let unit_sets: Vec<Vec<Vec<u8>>> = vec![vec!["é".as_bytes().to_vec()], vec![b"a".to_vec(), "😀".as_bytes().to_vec(), "é".as_bytes().to_vec()]];
                for units in unit_sets {
                    out.push(Case { level: if oi == 0 { "nested-json-length" } else { "nested-json-length-after-byte-mode-parent" }, g: GrammarSpec::Lark(format!("{opt}start: \"<\" j \">\"\nj: %json {st}")), prefix: b"<\"".to_vec(), units: units.clone(), sep: vec![], suffix: b"\">".to_vec(), m, n: Some(n) });
                    if n > 0 {
                        out.push(Case { level: if oi == 0 { "nested-lark-regex" } else { "nested-lark-regex-after-byte-mode-parent" }, g: GrammarSpec::Lark(format!("{opt}start: \"<\" j \">\"\nj: %lark {{\nstart: /[^>]{{{m},{n}}}/\n}}")), prefix: b"<".to_vec(), units, sep: vec![], suffix: b">".to_vec(), m, n: Some(n) });
                    }
                }
            }
        }
    }
    // minItems / maxItems next to prefixItems (items a schema or false): the tuple part counts too
    for p in 1..=3usize {
        for items_false in [false, true] {
            let mut bs: Vec<(usize, Option<usize>)> = vec![];
            for n in 0..=6usize {
                for m in 0..=n {
                    bs.push((m, Some(n)));
                }
            }
            for m in 0..=4usize {
                bs.push((m, None));
            }
            for (m, n) in bs {
                let eff_n = if items_false { Some(n.map_or(p, |n| n.min(p))) } else { n };
                if eff_n.map_or(false, |e| e < m) {
                    continue; // unsatisfiable: refusal is the right answer (C08's / C06's question)
                }
                let mut arr = json!({"type": "array", "prefixItems": vec![json!({"type": "null"}); p], "items": if items_false { json!(false) } else { json!({"type": "null"}) }, "minItems": m, "x-guidance": {"whitespace_flexible": false}});
                if let Some(n) = n {
                    arr["maxItems"] = json!(n);
                }
                out.push(Case { level: if items_false { "json-items-prefix-closed" } else { "json-items-prefix" }, g: GrammarSpec::Json(arr), prefix: b"[".to_vec(), units: vec![b"null".to_vec()], sep: b",".to_vec(), suffix: b"]".to_vec(), m, n: eff_n });
            }
        }
    }
    // * + ?
    for (op, m, n) in [("*", 0usize, None), ("+", 1, None), ("?", 0, Some(1usize))] {
        out.push(Case { level: "rule-op", g: GrammarSpec::Lark(format!("start: \"a\"{op} \"b\"")), prefix: vec![], units: a(), sep: vec![], suffix: b"b".to_vec(), m, n });
        out.push(Case { level: "terminal-op", g: GrammarSpec::Lark(format!("start: T \"b\"\nT: \"a\"{op}")), prefix: vec![], units: a(), sep: vec![], suffix: b"b".to_vec(), m, n });
        out.push(Case { level: "regex-op", g: GrammarSpec::Lark(format!("start: /a{op}b/")), prefix: vec![], units: a(), sep: vec![], suffix: vec![b'b'], m, n });
    }
    out
}

pub fn run(ctx: &Ctx) -> Coverage {
    let nmax = ctx.tier.pick(30, 60);
    let cs = cases(nmax, ctx.quick());
    let vocab = vocab::b256();
    let evals = AtomicU64::new(0);
    ctx.note(format!("{} (level, m, n) cases", cs.len()));
    cs.par_iter().for_each(|c| {
        if ctx.over_budget() {
            ctx.count("cases_skipped_budget", 1);
            return;
        }
        let f = Factory::new(&vocab, &Slices::Default).unwrap();
        let root = match f.try_matcher(&c.g) {
            Ok(r) => r,
            Err(e) => {
                // a form the front end refuses with a reported error is counted, not judged
                ctx.count(&format!("refused:{}", c.level), 1);
                if ctx.get_count(&format!("refused:{}", c.level)) <= 2 {
                    ctx.note(format!("refused {} m={} n={:?}: {}", c.level, c.m, c.n, e.lines().next().unwrap_or("")));
                }
                if !(c.n == Some(0)) {
                    ctx.violation(Violation {
                        check: "refused".into(),
                        class: "repetition-form-refused".into(),
                        signature: format!("refused|{}|{}|{:?}", c.level, c.m, c.n),
                        detail: json!({"kind": "repetition", "grammar": c.g.to_json(), "error": e}),
                    });
                }
                return;
            }
        };
        ctx.states.fetch_add(1, Ordering::Relaxed);
        let top = match c.n {
            Some(n) => n + 3,
            None => c.m + 6,
        };
        for k in 0..=top {
            let in_range = k >= c.m && c.n.map_or(true, |n| k <= n);
            let viable = c.n.map_or(true, |n| k <= n);
            // viable prefix: prefix + k units
            let mut m = root.clone();
            let pre_ok = bytes_ok(&f, &mut m, &body(c, k));
            evals.fetch_add(1, Ordering::Relaxed);
            ctx.transitions.fetch_add(1, Ordering::Relaxed);
            let mut fail = |what: &str, got: bool, exp: bool| {
                ctx.violation(Violation {
                    check: what.to_string(),
                    class: if got { "repetition-count-too-permissive".into() } else { "repetition-count-too-strict".into() },
                    signature: format!("{}|{}|m={}|n={:?}|k={}", what, c.level, c.m, c.n, k),
                    detail: json!({"kind": "repetition", "level": c.level, "grammar": c.g.to_json(), "m": c.m, "n": c.n, "count": k, "text": show(&body(c, k)), "engine": got, "expected": exp}),
                });
            };
            if pre_ok != viable {
                fail("viable_prefix", pre_ok, viable);
                continue;
            }
            if !pre_ok {
                continue;
            }
            // complete: add the suffix (if any) and test completeness
            let comp = if c.suffix.is_empty() { complete(&mut m) } else { bytes_ok(&f, &mut m, &c.suffix) && complete(&mut m) };
            if comp != in_range {
                fail("complete", comp, in_range);
            }
            ctx.outcome(((pre_ok as u64) << 1 | comp as u64) ^ fnv(c.level.as_bytes()) ^ ((k as u64) << 20) ^ ((c.m as u64) << 30) ^ ((c.n.unwrap_or(99) as u64) << 40));
        }
        if c.m % 5 == 0 && c.n == Some(c.m + 2) {
            ctx.sample(json!({"level": c.level, "grammar": c.g.short(), "m": c.m, "n": c.n}));
        }
    });
    ctx.validated.store(evals.load(Ordering::Relaxed), Ordering::Relaxed);
    let _: Option<Value> = None;
    Coverage::StateGraph {
        rule: format!("every 0 <= m <= n <= {nmax} and open forms {{m,}}, *, +, ? at rule, two-symbol-rule, terminal, regex and from_regex level, JSON min/maxItems (also next to 1-3 prefixItems with items a schema or false, all m <= n <= 6), min/maxLength (ASCII, 2-byte, 4-byte characters, escapes, mixed) and min/maxProperties; for each every count 0..n+3 (open: m+6): the text with k repetitions is fed byte by byte through mask + commit on the real engine; viable-prefix <=> k <= n and complete <=> m <= k <= n; states = grammars, transitions = (grammar, count) walks"),
    }
}
