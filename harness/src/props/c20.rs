//! C20 — arbitrary input never crashes, corrupts or hangs the engine.
//! Exhaustive enumeration of all strings of a few lexical fragments per front end, single-point
//! mutations of corpus grammars, size ladders, and short legal call sequences on every engine
//! that builds. Inputs are processed by child processes (wall-clock and address-space limits);
//! a dying child is bisected down to the offending input. Everything runs twice: in the normal
//! build and in a build with overflow checks, whose overflow panics prove silent wrap-around.
use crate::common::*;
use crate::corpus;
use crate::engine::*;
use crate::vocab;
use llguidance::api::ParserLimits;
use rayon::prelude::*;
use serde_json::{json, Value};
use std::io::Read;
use std::os::unix::process::CommandExt;
use std::process::{Command, Stdio};
use std::sync::atomic::Ordering;
use std::time::{Duration, Instant};

// ---------------------------------------------------------------------------------------
// input families (deterministic index -> input)

const LARK_FR: &[&str] = &[
    "start", ":", "\"a\"", "/a/", "A", "|", "(", ")", "[", "]", "?", "*", "+", "{2,3}", "{,}", "~", "&", "..", "\n", "%ignore", "::1", "%if true", "<[1]>", "\"\"", "/[/", "%json {}", "b", "{99999999999}",
];
const RX_FR: &[&str] = &[
    "a", "(", ")", "[", "]", "^", "$", "*", "+", "?", "{2}", "{9999999}", "{2,1}", "|", "\\", "\\d", "\\p{L}", ".", "(?i)", "(?P<n>", "\\b", "[^", "-", "\\x{110000}", "é", "{1,1000}",
];

fn json_pairs() -> Vec<(&'static str, Value)> {
    vec![
        ("type", json!("string")),
        ("type", json!("integer")),
        ("type", json!("number")),
        ("type", json!(["string", "null", "array"])),
        ("type", json!("object")),
        ("minimum", json!(-1)),
        ("maximum", json!(1e308)),
        ("exclusiveMinimum", json!(0.1)),
        ("exclusiveMaximum", json!(true)),
        ("multipleOf", json!(0)),
        ("multipleOf", json!(1e-9)),
        ("multipleOf", json!(65537)),
        ("minLength", json!(18446744073709551615u64)),
        ("maxLength", json!(0)),
        ("maxLength", json!(4294967296u64)),
        ("pattern", json!("(")),
        ("pattern", json!("a{100000}")),
        ("format", json!("nope")),
        ("format", json!("date")),
        ("enum", json!([])),
        ("enum", json!([1, "a", null, {"a": [1.5]}])),
        ("const", json!({})),
        ("items", json!(false)),
        ("items", json!({"$ref": "#"})),
        ("prefixItems", json!([])),
        ("minItems", json!(4294967296u64)),
        ("maxItems", json!(2)),
        ("properties", json!({"a": false, "b": {"$ref": "#"}})),
        ("required", json!(["a", "a", "zz"])),
        ("additionalProperties", json!(false)),
        ("patternProperties", json!({"(": {}})),
        ("$ref", json!("#")),
        ("$ref", json!("#/nope")),
        ("anyOf", json!([])),
        ("allOf", json!([true, false])),
        ("allOf", json!([{"multipleOf": 65537}, {"multipleOf": 65539}])),
        ("oneOf", json!([{}, {}])),
        ("x-guidance", json!({"lenient": true})),
        ("x-guidance", json!({"whitespace_pattern": "("})),
        ("minProperties", json!(3)),
        ("not", json!({})),
    ]
}

fn count_upto(n: usize, maxlen: usize) -> u64 {
    (1..=maxlen).map(|l| (n as u64).pow(l as u32)).sum()
}

/// index -> sequence of alphabet indices (shortlex order)
fn decode(mut idx: u64, n: usize, maxlen: usize) -> Vec<usize> {
    for l in 1..=maxlen {
        let c = (n as u64).pow(l as u32);
        if idx < c {
            let mut v = vec![0usize; l];
            for p in (0..l).rev() {
                v[p] = (idx % n as u64) as usize;
                idx /= n as u64;
            }
            return v;
        }
        idx -= c;
    }
    vec![]
}

#[derive(Clone, Debug)]
pub enum Input {
    Lark(String),
    Regex(String),
    Json(Value),
}

impl Input {
    fn spec(&self) -> GrammarSpec {
        match self {
            Input::Lark(s) => GrammarSpec::Lark(s.clone()),
            Input::Regex(s) => GrammarSpec::Regex(s.clone()),
            Input::Json(v) => GrammarSpec::Json(v.clone()),
        }
    }
    fn show(&self) -> String {
        match self {
            Input::Lark(s) => format!("lark:{}", s),
            Input::Regex(s) => format!("regex:{}", s),
            Input::Json(v) => format!("json:{}", v),
        }
    }
}

fn lark_mutations() -> Vec<String> {
    // single-point mutations (delete / duplicate / replace by each alphabet entry) at every
    // token position of every corpus Lark grammar
    let mut out = vec![];
    for it in corpus::lark_items().into_iter().chain(corpus::noncore_lark_items()) {
        let GrammarSpec::Lark(src) = it.g else { continue };
        let toks: Vec<&str> = src.split_inclusive(|c: char| c.is_whitespace() || "|()[]?*+:".contains(c)).collect();
        for i in 0..toks.len() {
            let mk = |repl: Option<&str>, dup: bool| -> String {
                let mut s = String::new();
                for (j, t) in toks.iter().enumerate() {
                    if j == i {
                        match repl {
                            Some(r) => {
                                s.push_str(r);
                                s.push(' ');
                            }
                            None => {
                                if dup {
                                    s.push_str(t);
                                    s.push_str(t);
                                }
                            }
                        }
                    } else {
                        s.push_str(t);
                    }
                }
                s
            };
            out.push(mk(None, false));
            out.push(mk(None, true));
            for f in LARK_FR.iter().step_by(3) {
                out.push(mk(Some(f), false));
            }
        }
    }
    out
}

fn json_mutations() -> Vec<Value> {
    let mut out = vec![];
    let pairs = json_pairs();
    for it in corpus::json_items() {
        let GrammarSpec::Json(v) = it.g else { continue };
        if let Value::Object(o) = &v {
            for k in o.keys() {
                let mut d = o.clone();
                d.remove(k);
                out.push(Value::Object(d));
            }
            for (k, val) in pairs.iter() {
                let mut d = o.clone();
                d.insert(k.to_string(), val.clone());
                out.push(Value::Object(d));
            }
        }
    }
    out
}

pub struct Family {
    pub name: &'static str,
    pub total: u64,
    gen: Box<dyn Fn(u64) -> Input + Sync + Send>,
}

pub fn families(quick: bool) -> Vec<Family> {
    let mut v: Vec<Family> = vec![];
    let l_len = if quick { 3 } else { 4 };
    let nl = if quick { 19 } else { LARK_FR.len() };
    v.push(Family { name: "lark-fragments", total: count_upto(nl, l_len), gen: Box::new(move |i| Input::Lark(decode(i, nl, l_len).iter().map(|k| LARK_FR[*k]).collect::<Vec<_>>().join(" "))) });
    v.push(Family { name: "lark-fragments-after-start", total: count_upto(nl, l_len), gen: Box::new(move |i| Input::Lark(format!("start: {}", decode(i, nl, l_len).iter().map(|k| LARK_FR[*k]).collect::<Vec<_>>().join(" ")))) });
    let nr = if quick { 19 } else { RX_FR.len() };
    let r_len = if quick { 3 } else { 4 };
    v.push(Family { name: "regex-fragments", total: count_upto(nr, r_len), gen: Box::new(move |i| Input::Regex(decode(i, nr, r_len).iter().map(|k| RX_FR[*k]).collect::<Vec<_>>().concat())) });
    let pairs = json_pairs();
    let np = pairs.len();
    let j_len = if quick { 2 } else { 3 };
    let pairs2 = pairs.clone();
    v.push(Family {
        name: "json-keyword-pairs",
        total: count_upto(np, j_len),
        gen: Box::new(move |i| {
            let mut o = serde_json::Map::new();
            for k in decode(i, np, j_len) {
                o.insert(pairs2[k].0.to_string(), pairs2[k].1.clone());
            }
            Input::Json(Value::Object(o))
        }),
    });
    let pairs3 = pairs.clone();
    v.push(Family {
        name: "json-nested-pairs",
        total: count_upto(np, 2),
        gen: Box::new(move |i| {
            let mut inner = serde_json::Map::new();
            for k in decode(i, np, 2) {
                inner.insert(pairs3[k].0.to_string(), pairs3[k].1.clone());
            }
            Input::Json(json!({"type": "object", "properties": {"p": Value::Object(inner.clone())}, "required": ["p"], "additionalProperties": {"type": "array", "items": Value::Object(inner)}}))
        }),
    });
    let lm = lark_mutations();
    let lm_n = if quick { lm.len().min(1500) } else { lm.len() };
    v.push(Family { name: "lark-corpus-mutations", total: lm_n as u64, gen: Box::new(move |i| Input::Lark(lm[i as usize].clone())) });
    let jm = json_mutations();
    v.push(Family { name: "json-corpus-mutations", total: jm.len() as u64, gen: Box::new(move |i| Input::Json(jm[i as usize].clone())) });
    // the well-formed corpus (and the parametric reference grammars), driven deeper than the fuzzed families:
    // arithmetic on parameters and counters only goes wrong after several commits
    let mut deep: Vec<Input> = vec![];
    for it in corpus::all_items() {
        deep.push(match it.g {
            GrammarSpec::Lark(s) => Input::Lark(s),
            GrammarSpec::Regex(s) => Input::Regex(s),
            GrammarSpec::Json(v) => Input::Json(v),
        });
    }
    for p in crate::refs::cfg_earley::parametric_grammars() {
        deep.push(Input::Lark(p.lark));
    }
    v.push(Family { name: "corpus-deep", total: deep.len() as u64, gen: Box::new(move |i| match &deep[i as usize] {
        Input::Lark(s) => Input::Lark(s.clone()),
        Input::Regex(s) => Input::Regex(s.clone()),
        Input::Json(x) => Input::Json(x.clone()),
    }) });
    // size ladders
    let mut ladders: Vec<Input> = vec![];
    let sizes: Vec<usize> = if quick { vec![10, 100, 1000, 10_000] } else { vec![10, 100, 1000, 10_000, 100_000] };
    for &n in sizes.iter() {
        ladders.push(Input::Lark(format!("start: {}\"a\"{}", "(".repeat(n), ")".repeat(n))));
        ladders.push(Input::Lark(format!("start: {}\"a\"{}", "[".repeat(n), "]".repeat(n))));
        ladders.push(Input::Regex(format!("{}a{}", "(".repeat(n), ")".repeat(n))));
        ladders.push(Input::Regex(format!("a{}", "?".repeat(n.min(2000)))));
        ladders.push(Input::Lark(format!("start: \"{}\"", "a".repeat(n * 10))));
        ladders.push(Input::Lark(format!("start: {}", (0..n.min(20000)).map(|i| format!("\"a{i}\"")).collect::<Vec<_>>().join(" | "))));
        // every recursive syntactic construct gets a ladder, in every position it can occur
        for (open, close) in [("start: %lark {\n", "}\n"), ("start[stop=%lark {\n", "}]: /[a-z]*/\n"), ("start[suffix=%lark {\n", "}]: /[a-z]*/\n")] {
            let d = n.min(3000);
            ladders.push(Input::Lark(format!("{}start: \"x\"\n{}", open.repeat(d), close.repeat(d))));
        }
        ladders.push(Input::Lark(format!("start: {}\"a\"{}", "(\"b\" | ".repeat(n.min(3000)), ")".repeat(n.min(3000)))));
        ladders.push(Input::Lark(format!("start: T\nT: {}\"a\"{}", "~(".repeat(n.min(3000)), ")".repeat(n.min(3000)))));
        ladders.push(Input::Lark(format!("start: %json {}{}{}", "{\"items\":".repeat(n.min(100)), "{}", "}".repeat(n.min(100)))));
        ladders.push(Input::Regex(format!("{}a{}", "(?:".repeat(n.min(3000)), ")*".repeat(n.min(3000)))));
        ladders.push(Input::Regex(format!("{}a{}", "[a&&[".repeat(n.min(500)), "]]".repeat(n.min(500)))));
        let mut any_of = json!({"type": "null"});
        for _ in 0..n.min(100) {
            any_of = json!({"anyOf": [any_of, {"type": "boolean"}]});
        }
        ladders.push(Input::Json(any_of));
        let mut all_of = json!({"type": "integer"});
        for i in 0..n.min(100) {
            all_of = json!({"allOf": [all_of, {"minimum": i}]});
        }
        ladders.push(Input::Json(all_of));
        let mut props = json!({"type": "null"});
        for _ in 0..n.min(100) {
            props = json!({"type": "object", "properties": {"a": props}, "additionalProperties": false});
        }
        ladders.push(Input::Json(props));
        let mut nested = json!({"type": "null"});
        for _ in 0..n.min(3000) {
            nested = json!({"type": "array", "items": nested});
        }
        ladders.push(Input::Json(nested));
        let mut defs = serde_json::Map::new();
        for i in 0..n.min(5000) {
            defs.insert(format!("d{i}"), json!({"$ref": format!("#/$defs/d{}", i + 1)}));
        }
        defs.insert(format!("d{}", n.min(5000)), json!({"type": "null"}));
        ladders.push(Input::Json(json!({"$defs": Value::Object(defs), "$ref": "#/$defs/d0"})));
        ladders.push(Input::Json(json!({"type": "string", "maxLength": n * 1000})));
        ladders.push(Input::Json(json!({"type": "array", "items": {"type": "null"}, "minItems": n, "maxItems": n * 2})));
        ladders.push(Input::Json(json!({"enum": (0..n.min(20000)).map(|i| json!(format!("v{i}"))).collect::<Vec<_>>()})));
    }
    for k in [31u32, 32, 33, 40, 63, 64] {
        let n = 1u128 << k;
        ladders.push(Input::Lark(format!("start: \"a\"{{1,{n}}}")));
        ladders.push(Input::Lark(format!("start: T\nT: \"a\"{{{n}}}")));
        ladders.push(Input::Regex(format!("a{{{n}}}")));
        ladders.push(Input::Json(json!({"type": "integer", "minimum": 0, "maximum": (n as f64)})));
        ladders.push(Input::Json(json!({"type": "integer", "multipleOf": (n as f64)})));
    }
    for (a, b) in [(65537u64, 65539u64), (4294967295, 2), (99991, 99989), (3, 1431655766)] {
        ladders.push(Input::Json(json!({"allOf": [{"type": "integer", "multipleOf": a}, {"multipleOf": b}]})));
        ladders.push(Input::Json(json!({"allOf": [{"type": "number", "multipleOf": (a as f64) / 1000.0}, {"multipleOf": (b as f64) / 100.0}]})));
    }
    let ln = ladders.len();
    v.push(Family { name: "size-ladders", total: ln as u64, gen: Box::new(move |i| ladders[i as usize].clone()) });
    v
}

// ---------------------------------------------------------------------------------------
// worker: processes [start, end) of one family, prints one line per issue

fn is_overflow_msg(m: &str) -> bool {
    m.contains("with overflow") || m.contains("attempt to")
}

fn drive_input(f: &Factory, inp: &Input, idx: u64, fam: &str, tight: bool) -> (u64, Vec<String>) {
    let issues: std::cell::RefCell<Vec<String>> = std::cell::RefCell::new(vec![]);
    let mut calls = 0u64;
    // JSON schemas travel as text (C API, from_tagged_str): a value the JSON parser itself refuses
    // (e.g. nesting beyond serde_json's recursion limit) never reaches the engine
    if let Input::Json(v) = inp {
        let text = v.to_string();
        if serde_json::from_str::<Value>(&text).is_err() {
            return (0, vec![format!("REJECTED-BY-JSON-PARSER {fam} {idx}")]);
        }
    }
    let spec = inp.spec();
    let t0 = Instant::now();
    let built = guarded(|| f.try_matcher(&spec));
    let h = hex(inp.show().as_bytes());
    let note = |kind: &str, msg: &str| {
        let mut first = msg.lines().next().unwrap_or("").to_string();
        // attribute a caught panic to the first library frame of its backtrace
        if let Some(fr) = msg.lines().map(|l| l.trim()).find(|l| (l.contains("derivre::") || l.contains("llguidance::") || l.contains("toktrie::")) && !l.contains("panic_utils") && !l.contains("catch_unwind")) {
            let fr = fr.split(": ").last().unwrap_or(fr);
            first.push_str(" @ ");
            first.push_str(&fr.chars().take(120).collect::<String>());
        }
        issues.borrow_mut().push(format!("ISSUE {kind} {fam} {idx} {h} {}", hex(first.as_bytes())))
    };
    let m = match built {
        Err(p) => {
            note("escaped-panic-build", &p);
            return (calls, issues.into_inner());
        }
        Ok(Err(e)) => {
            if e.starts_with("panic") && is_overflow_msg(&e) {
                note("overflow-build", &e);
            } else if e.starts_with("panic") {
                note("caught-panic-build", &e);
            }
            if t0.elapsed() > Duration::from_secs(5) {
                note("slow-build", &format!("{:?}", t0.elapsed()));
            }
            return (calls, issues.into_inner());
        }
        Ok(Ok(m)) => m,
    };
    if t0.elapsed() > Duration::from_secs(5) {
        note("slow-build", &format!("{:?}", t0.elapsed()));
    }
    issues.borrow_mut().push(format!("BUILT {fam} {idx}"));
    // every sequence of <= 3 legal calls (4 under tight limits is the same menu)
    fn rec(m: &llguidance::Matcher, depth: usize, hist_len: usize, calls: &mut u64, bad: &mut Option<String>) {
        if depth == 0 || bad.is_some() || m.is_stopped() {
            return;
        }
        let mut probe = m.clone();
        let mask = match probe.compute_mask() {
            Ok(mk) => mk,
            Err(e) => {
                let s = e.to_string();
                if s.starts_with("panic") {
                    *bad = Some(format!("mask: {}", s.lines().next().unwrap_or("")));
                }
                return;
            }
        };
        *calls += 1;
        let toks: Vec<u32> = mask.iter().take(40).collect();
        // validate
        let mut v = m.clone();
        if let Err(e) = v.validate_tokens(&toks[..toks.len().min(3)]) {
            let s = e.to_string();
            if s.starts_with("panic") {
                *bad = Some(format!("validate: {}", s.lines().next().unwrap_or("")));
                return;
            }
        }
        *calls += 1;
        let picks: Vec<u32> = if toks.len() <= 3 { toks.clone() } else { vec![toks[0], toks[toks.len() / 2], toks[toks.len() - 1]] };
        for t in picks {
            let mut c = probe.clone();
            *calls += 1;
            match c.consume_token(t) {
                Ok(()) => {
                    rec(&c, depth - 1, hist_len + 1, calls, bad);
                    if bad.is_some() {
                        return;
                    }
                    // rollback and ask again
                    let mut r = c.clone();
                    *calls += 1;
                    match r.rollback(1) {
                        Ok(()) => {
                            if let Err(e) = r.compute_mask() {
                                let s = e.to_string();
                                if s.starts_with("panic") {
                                    *bad = Some(format!("mask after rollback: {}", s.lines().next().unwrap_or("")));
                                    return;
                                }
                            }
                        }
                        Err(e) => {
                            let s = e.to_string();
                            if s.starts_with("panic") {
                                *bad = Some(format!("rollback: {}", s.lines().next().unwrap_or("")));
                                return;
                            }
                        }
                    }
                }
                Err(e) => {
                    let s = e.to_string();
                    if s.starts_with("panic") {
                        *bad = Some(format!("commit of mask token {t}: {}", s.lines().next().unwrap_or("")));
                        return;
                    }
                    // a mask token refused without a resource-limit message
                    if !crate::props::c01::is_resource_limit(&s) {
                        *bad = Some(format!("mask token {t} refused: {}", s.lines().next().unwrap_or("")));
                        return;
                    }
                }
            }
        }
        // a failed engine keeps reporting its failure
        let mut x = probe.clone();
        if x.consume_token(u32::MAX - 1).is_ok() {
            *bad = Some("out-of-range token accepted".into());
            return;
        }
        if x.compute_mask().is_ok() || x.consume_token(0).is_ok() {
            *bad = Some("failed engine answered".into());
        }
    }
    let mut bad = None;
    let r = guarded(|| rec(&m, if fam == "corpus-deep" { 6 } else if tight { 2 } else { 3 }, 0, &mut calls, &mut bad));
    if let Err(p) = r {
        note("escaped-panic-call", &p);
    }
    if let Some(b) = bad {
        if is_overflow_msg(&b) {
            note("overflow-call", &b);
        } else {
            note("panic-or-inconsistency-on-legal-call", &b);
        }
    }
    if t0.elapsed() > Duration::from_secs(20) {
        note("slow-input", &format!("{:?}", t0.elapsed()));
    }
    (calls, issues.into_inner())
}

/// entry point of the child process: `llgmc c20-worker <family> <start> <end> <quick|thorough> <tight:0|1>`
pub fn worker_main(args: &[String]) -> i32 {
    let fam_name = &args[0];
    let start: u64 = args[1].parse().unwrap();
    let end: u64 = args[2].parse().unwrap();
    let quick = args[3] == "quick";
    let tight = args.get(4).map_or(false, |s| s == "1");
    let fams = families(quick);
    let Some(fam) = fams.iter().find(|f| f.name == fam_name) else { return 3 };
    let v = vocab::b256();
    let limits = if tight {
        Some(ParserLimits { max_items_in_row: 50, initial_lexer_fuel: 5_000, step_lexer_fuel: 2_000, step_max_items: 500, max_lexer_states: 300, max_grammar_size: 2_000, precompute_large_lexemes: false, verbose_errors: false })
    } else {
        None
    };
    let f = Factory::with_limits(&v, &Slices::Default, limits).unwrap();
    let mut calls = 0u64;
    use std::io::Write;
    let out = std::io::stdout();
    for i in start..end.min(fam.total) {
        {
            let mut o = out.lock();
            let _ = writeln!(o, "AT {i}");
        }
        let inp = (fam.gen)(i);
        let (c, issues) = drive_input(&f, &inp, i, fam.name, tight);
        calls += c;
        let mut o = out.lock();
        for l in issues {
            let _ = writeln!(o, "{l}");
        }
    }
    println!("DONE {calls}");
    0
}


// ---------------------------------------------------------------------------------------
// legal call sequences with rollback in the middle (in-process, on the well-formed corpus)

struct LegalDfs<'a> {
    eos: u32,
    n1: usize,
    n2: usize,
    branch: usize,
    nodes: u64,
    calls: u64,
    cap: u64,
    capped: bool,
    bad: Option<(Vec<String>, String)>,
    vocab: &'a crate::vocab::VocabSpec,
    uncovered_forced: u64,
}

impl<'a> LegalDfs<'a> {
    fn is_internal(msg: &str) -> bool {
        msg.starts_with("panic") || msg.contains("panicked") || msg.contains("internal error")
    }

    /// phase 0: up to n1 commits, then one rollback of 1 or 2 tokens; phase 1: up to n2 more commits
    fn go(&mut self, m: &llguidance::Matcher, left: usize, phase: u8, hist_len: usize, ops: &mut Vec<String>) {
        if self.bad.is_some() {
            return;
        }
        if self.nodes >= self.cap {
            self.capped = true;
            return;
        }
        self.nodes += 1;
        crate::watchdog::beat();
        if phase == 0 && hist_len >= 1 {
            for k in 1..=hist_len.min(2) {
                let mut r = m.clone();
                self.calls += 1;
                ops.push(format!("r:{k}"));
                match r.rollback(k) {
                    Ok(()) => self.go(&r, self.n2, 1, hist_len - k, ops),
                    Err(e) => {
                        let s = e.to_string();
                        if Self::is_internal(&s) {
                            self.bad = Some((ops.clone(), format!("rollback({k}): {}", s.lines().next().unwrap_or(""))));
                        }
                    }
                }
                ops.pop();
                if self.bad.is_some() {
                    return;
                }
            }
        }
        if left == 0 || m.is_stopped() {
            return;
        }
        // fast-forward queries are legal calls too (they run the tokenizer over forced text under a canonical
        // tokenizer); a panic inside them latches the matcher's error state
        {
            let mut q = m.clone();
            self.calls += 2;
            let _ = q.compute_ff_tokens();
            let fb = q.compute_ff_bytes();
            if self.vocab.canonical && fb.iter().any(|b| !self.vocab.tokens.iter().any(|t| t.len() == 1 && t[0] == *b)) {
                // the grammar forces a byte this canonical vocabulary has no token for: an ill-formed tokenizer
                // (DESIGN 1.3), the state is a leaf and is counted, never judged
                self.uncovered_forced += 1;
                return;
            }
            if q.is_error() && !m.is_error() {
                let s = q.get_error().unwrap_or_default();
                if Self::is_internal(&s) {
                    self.bad = Some((ops.clone(), format!("compute_ff_tokens / compute_ff_bytes: {}", s.lines().next().unwrap_or(""))));
                    return;
                }
            }
        }
        let mut probe = m.clone();
        self.calls += 1;
        let mask = match probe.compute_mask() {
            Ok(mk) => mk,
            Err(e) => {
                let s = e.to_string();
                if Self::is_internal(&s) {
                    self.bad = Some((ops.clone(), format!("compute_mask: {}", s.lines().next().unwrap_or(""))));
                }
                return;
            }
        };
        let toks: Vec<u32> = mask.iter().filter(|t| *t != self.eos).collect();
        let mut picks: Vec<u32> = vec![];
        if mask.is_allowed(self.eos) {
            picks.push(self.eos);
        }
        let b = self.branch.saturating_sub(picks.len()).max(1);
        if toks.len() <= b {
            picks.extend(toks.iter().copied());
        } else {
            // deterministic spread, rotated by the depth so that different positions see different tokens
            for i in 0..b {
                picks.push(toks[(i * toks.len() / b + hist_len) % toks.len()]);
            }
        }
        for t in picks {
            let mut c = probe.clone();
            self.calls += 1;
            ops.push(format!("c:{t}"));
            match c.consume_token(t) {
                Ok(()) => self.go(&c, left - 1, phase, hist_len + 1, ops),
                Err(e) => {
                    let s = e.to_string();
                    if Self::is_internal(&s) || !crate::props::c01::is_resource_limit(&s) {
                        self.bad = Some((ops.clone(), format!("commit of mask token {t} {:?}: {}", crate::common::show(&self.vocab.tokens[t as usize]), s.lines().next().unwrap_or(""))));
                    }
                }
            }
            ops.pop();
            if self.bad.is_some() {
                return;
            }
        }
    }
}

fn legal_call_layer(ctx: &Ctx) {
    use crate::jobs::{make_jobs, VKind};
    let items: Vec<crate::corpus::Item> = crate::corpus::all_items();
    let jobs = make_jobs(&items, &[VKind::Bytes, VKind::Multi2, VKind::Multi3Canon]);
    let (n1, n2, branch, cap) = (ctx.tier.pick(3, 4), ctx.tier.pick(3, 4), ctx.tier.pick(4, 5), ctx.tier.pick(20_000u64, 400_000));
    jobs.par_iter().for_each(|job| {
        let Ok(f) = Factory::new(&job.vocab, &Slices::Default) else { return };
        let Ok(root) = f.try_matcher(&job.item.g) else { return };
        let mut d = LegalDfs { eos: job.vocab.eos, n1, n2, branch, nodes: 0, calls: 0, cap, capped: false, bad: None, vocab: &job.vocab, uncovered_forced: 0 };
        let mut ops = vec![];
        let r = guarded(|| {
            let n1 = d.n1;
            d.go(&root, n1, 0, 0, &mut ops)
        });
        ctx.count("legal_call_nodes", d.nodes);
        ctx.count("legal_call_states_with_uncovered_forced_byte", d.uncovered_forced);
        ctx.count(if d.capped { "legal_call_jobs_capped" } else { "legal_call_jobs_complete" }, 1);
        ctx.states.fetch_add(d.nodes, Ordering::Relaxed);
        ctx.transitions.fetch_add(d.calls, Ordering::Relaxed);
        ctx.validated.fetch_add(d.calls, Ordering::Relaxed);
        let bad = match r {
            Err(p) => Some((vec![], format!("escaped panic: {}", p.lines().next().unwrap_or("")))),
            Ok(()) => d.bad.take(),
        };
        if let Some((ops, msg)) = bad {
            ctx.violation(Violation {
                check: "legal_call_sequence".into(),
                class: "robustness-panic-or-refusal-on-legal-call".into(),
                signature: format!("legal|{}|{}|{:?}", job.item.name, job.vocab.name, ops),
                detail: json!({"kind": "legal_calls", "grammar": job.item.g.to_json(), "vocab": job.vocab.to_json(), "slices": Slices::Default.to_json(), "ops": ops, "what": msg}),
            });
        }
    });
}

// ---------------------------------------------------------------------------------------
// parent

struct ChunkResult {
    lines: Vec<String>,
    done: bool,
    last_at: Option<u64>,
    status: String,
    calls: u64,
}

fn run_chunk(bin: &str, fam: &str, start: u64, end: u64, tier: &str, tight: bool, cpu_s: u64) -> ChunkResult {
    // the verdict "hang" is decided by CPU time (RLIMIT_CPU), not wall time, so that machine load
    // cannot produce a false alarm; the wall timeout is only a backstop
    let timeout_s = cpu_s * 20 + 60;
    let mut cmd = Command::new(bin);
    cmd.args(["c20-worker", fam, &start.to_string(), &end.to_string(), tier, if tight { "1" } else { "0" }]);
    cmd.stdout(Stdio::piped()).stderr(Stdio::null()).stdin(Stdio::null());
    unsafe {
        cmd.pre_exec(move || {
            // address-space and stack limits for the child
            let lim = libc::rlimit { rlim_cur: 6 << 30, rlim_max: 6 << 30 };
            libc::setrlimit(libc::RLIMIT_AS, &lim);
            let cl = libc::rlimit { rlim_cur: 0, rlim_max: 0 };
            libc::setrlimit(libc::RLIMIT_CORE, &cl);
            let cpu = libc::rlimit { rlim_cur: cpu_s, rlim_max: cpu_s + 2 };
            libc::setrlimit(libc::RLIMIT_CPU, &cpu);
            Ok(())
        });
    }
    let mut child = match cmd.spawn() {
        Ok(c) => c,
        Err(e) => return ChunkResult { lines: vec![], done: false, last_at: None, status: format!("spawn failed: {e}"), calls: 0 },
    };
    let mut stdout = child.stdout.take().unwrap();
    let reader = std::thread::spawn(move || {
        let mut s = String::new();
        let _ = stdout.read_to_string(&mut s);
        s
    });
    let t0 = Instant::now();
    let status;
    loop {
        match child.try_wait() {
            Ok(Some(st)) => {
                use std::os::unix::process::ExitStatusExt;
                status = if st.success() {
                    "ok".to_string()
                } else if st.signal() == Some(libc::SIGXCPU) || st.signal() == Some(libc::SIGKILL) {
                    "cpu-limit".to_string()
                } else {
                    format!("{st}")
                };
                break;
            }
            Ok(None) => {
                if t0.elapsed() > Duration::from_secs(timeout_s) {
                    let _ = child.kill();
                    let _ = child.wait();
                    status = "timeout".to_string();
                    break;
                }
                std::thread::sleep(Duration::from_millis(20));
            }
            Err(e) => {
                status = format!("wait error {e}");
                break;
            }
        }
    }
    let text = reader.join().unwrap_or_default();
    let mut lines = vec![];
    let mut last_at = None;
    let mut done = false;
    let mut calls = 0;
    for l in text.lines() {
        if let Some(x) = l.strip_prefix("AT ") {
            last_at = x.parse().ok();
        } else if let Some(x) = l.strip_prefix("DONE ") {
            done = true;
            calls = x.parse().unwrap_or(0);
        } else {
            lines.push(l.to_string());
        }
    }
    ChunkResult { lines, done, last_at, status, calls }
}

fn unhex_str(h: &str) -> String {
    String::from_utf8_lossy(&unhex(h)).to_string()
}

pub fn run(ctx: &Ctx) -> Coverage {
    // child processes under CPU limits: give the quick tier a larger wall budget than the default
    let budget = if std::env::var("VERIF_BUDGET_S").is_ok() { ctx.budget_s } else { ctx.tier.pick(150.0, 3000.0) };
    let over_budget = || {
        if ctx.elapsed() > budget {
            ctx.cap_hit.store(true, Ordering::Relaxed);
            true
        } else {
            false
        }
    };
    legal_call_layer(ctx);
    ctx.note(format!("legal-call layer done at {:.1}s", ctx.elapsed()));
    let me = std::env::current_exe().unwrap().to_string_lossy().to_string();
    let ovf = std::env::var("LLGMC_OVF_BIN").ok().filter(|p| std::path::Path::new(p).exists());
    if ovf.is_none() {
        ctx.machinery_error("LLGMC_OVF_BIN is not set: the overflow-checked build is required (run through ./check)");
    }
    let tier = ctx.tier.name();
    let fams = families(ctx.quick());
    // chunks
    let chunk = ctx.tier.pick(1500u64, 4000);
    let mut jobs: Vec<(String, u64, u64, bool, bool)> = vec![]; // family, start, end, ovf?, tight?
    for f in fams.iter() {
        let mut s = 0;
        let c = if f.name == "size-ladders" { 1 } else { chunk };
        while s < f.total {
            let e = (s + c).min(f.total);
            jobs.push((f.name.to_string(), s, e, false, false));
            if ovf.is_some() {
                jobs.push((f.name.to_string(), s, e, true, false));
            }
            if f.name.ends_with("mutations") {
                jobs.push((f.name.to_string(), s, e, false, true));
            }
            s = e;
        }
        ctx.count(&format!("inputs:{}", f.name), f.total);
    }
    jobs.sort_by_key(|j| (!(j.0.starts_with("json") || j.0 == "size-ladders"), j.0.clone(), j.1));
    ctx.note(format!("{} child-process jobs", jobs.len()));
    let built_plain: std::sync::Mutex<std::collections::BTreeSet<(String, u64)>> = Default::default();
    let ovf_issues: std::sync::Mutex<Vec<(String, u64, String, String)>> = Default::default();
    jobs.par_iter().for_each(|(fam, s, e, is_ovf, tight)| {
        if over_budget() {
            ctx.count("jobs_skipped_budget", 1);
            return;
        }
        let bin = if *is_ovf { ovf.as_ref().unwrap().as_str() } else { me.as_str() };
        let timeout = if fam == "size-ladders" { if tier == "quick" { 12 } else { 40 } } else { 300 };
        let mut pending = vec![(*s, *e)];
        while let Some((a, b)) = pending.pop() {
            let r = run_chunk(bin, fam, a, b, tier, *tight, timeout);
            ctx.count(if *is_ovf { "inputs_processed_ovf_build" } else { "inputs_processed" }, r.last_at.map_or(0, |l| l + 1 - a));
            ctx.states.fetch_add(r.last_at.map_or(0, |l| l + 1 - a), Ordering::Relaxed);
            ctx.transitions.fetch_add(r.calls, Ordering::Relaxed);
            ctx.validated.fetch_add(r.calls, Ordering::Relaxed);
            for l in r.lines.iter() {
                let p: Vec<&str> = l.split(' ').collect();
                if p[0] == "BUILT" {
                    if !*is_ovf && !*tight {
                        built_plain.lock().unwrap().insert((p[1].to_string(), p[2].parse().unwrap_or(0)));
                    }
                    ctx.count(if *is_ovf { "engines_built_ovf_build" } else { "engines_built" }, 1);
                    continue;
                }
                if p[0] != "ISSUE" || p.len() < 6 {
                    continue;
                }
                let (kind, fam2, idx, input, msg) = (p[1], p[2], p[3].parse::<u64>().unwrap_or(0), unhex_str(p[4]), unhex_str(p[5]));
                ctx.count(&format!("issue:{}{}", kind, if *is_ovf { ":ovf" } else { "" }), 1);
                match kind {
                    "overflow-build" | "overflow-call" if *is_ovf => {
                        ovf_issues.lock().unwrap().push((fam2.to_string(), idx, input, msg));
                    }
                    "caught-panic-build" | "slow-build" => {
                        // a panic caught inside the library and turned into a reported error is
                        // within the property; counted only
                    }
                    "escaped-panic-build" | "escaped-panic-call" | "panic-or-inconsistency-on-legal-call" | "slow-input" | "overflow-call" | "overflow-build" => {
                        if !*is_ovf {
                            ctx.violation(Violation {
                                check: kind.to_string(),
                                class: format!("robustness-{}", kind),
                                signature: format!("{}|{}|{}", kind, input, msg),
                                detail: json!({"kind": "robustness", "family": fam2, "index": idx, "input": input, "message": msg, "tight_limits": tight}),
                            });
                        }
                    }
                    _ => {}
                }
            }
            if !r.done {
                // the child died or timed out: the input after the last AT line is the culprit
                let culprit = r.last_at.unwrap_or(a);
                let fams2 = families(tier == "quick");
                let inp = fams2.iter().find(|f| f.name == fam.as_str()).map(|f| (f.gen)(culprit).show()).unwrap_or_default();
                let short: String = inp.chars().take(300).collect();
                let hang = r.status == "timeout" || r.status == "cpu-limit";
                let v = Violation {
                    check: "child-died".into(),
                    class: if hang { "robustness-hang".into() } else { "robustness-process-abort".into() },
                    signature: format!("{}|{}", if hang { "hang" } else { r.status.as_str() }, short),
                    detail: json!({"kind": "robustness", "family": fam, "index": culprit, "input": short, "input_len": inp.len(), "child_status": r.status, "overflow_checked_build": is_ovf, "tight_limits": tight}),
                };
                // a CPU-limit hit that is not a recorded finding is confirmed before it becomes a verdict: the
                // culprit runs again, alone in its child, with three times the CPU limit (CPU time is inflated
                // a few-fold when sixteen children and two builds share the caches)
                let confirmed = if hang && !ctx.is_known(&v) {
                    let again = run_chunk(bin, fam, culprit, culprit + 1, tier, *tight, timeout * 3);
                    ctx.count("hang_verdicts_rechecked", 1);
                    if again.done {
                        ctx.count("hang_verdicts_not_confirmed", 1);
                    }
                    !again.done
                } else {
                    true
                };
                if confirmed {
                    ctx.violation(v);
                }
                if culprit + 1 < b {
                    pending.push((culprit + 1, b));
                }
            }
        }
    });
    // silent overflow: the overflow-checked build panicked with an arithmetic overflow where the
    // normal build produced a result
    let built = built_plain.into_inner().unwrap();
    for (fam, idx, input, msg) in ovf_issues.into_inner().unwrap() {
        let silently = built.contains(&(fam.clone(), idx));
        ctx.violation(Violation {
            check: "arithmetic-overflow".into(),
            class: if silently { "robustness-silent-arithmetic-overflow".into() } else { "robustness-arithmetic-overflow".into() },
            signature: format!("overflow|{}|{}", input, msg),
            detail: json!({"kind": "robustness", "family": fam, "index": idx, "input": input, "overflow_panic_in_checked_build": msg, "normal_build_returned_a_result": silently}),
        });
    }
    ctx.outcome(ctx.get_count("engines_built"));
    ctx.outcome(ctx.get_count("inputs_processed") ^ 0x1234);
    ctx.sample(json!({"lark": "start: \"a\" | ( {2,3}", "regex": "(?P<n>{9999999}", "json": {"type": "integer", "multipleOf": 0}, "ladder": "start: ((((... 10000 ...))))"}));
    if ctx.get_count("engines_built") == 0 {
        ctx.machinery_error("vacuous run: no engine built");
    }
    Coverage::StateGraph {
        rule: "every string of <= 3 (thorough: 4) lexical fragments from a 28-entry Lark alphabet (raw and after 'start:'), a 26-entry regex alphabet, every object of <= 2 (thorough: 3) keyword/value pairs from a 41-entry JSON-schema menu (flat and nested), every single-point mutation of every corpus Lark grammar and JSON schema (also under tight limits), the well-formed corpus and the parametric reference grammars driven to depth 6 (family corpus-deep), and size ladders (nesting to 1e4/1e5, counts to 2^64, multipleOf products, long literals, $ref chains); each input is compiled in a child process with wall-clock and address-space limits and, when it builds, driven through every sequence of <= 3 legal calls (mask, validate, commit of 3 mask tokens, rollback); the whole enumeration also runs in a build with overflow checks; plus, in-process on every corpus grammar x {byte, multi-byte} vocabulary with default slices, every legal call sequence of the shape <= 3 (thorough: 4) commits, one rollback of 1 or 2 tokens, <= 3 (4) further commits, with <= 4 (5) mask tokens per position (EOS whenever allowed) — no internal panic, no refusal of a mask token; states = inputs, transitions = legal API calls".into(),
    }
}
