//! C03 — allowed tokens never lead into a dead end (byte-complete vocabularies).
//! The reachable state graph is built with the real engine; a state is a *definite dead end*
//! when its forward closure was explored completely and contains no state where stopping is
//! legitimate. States whose closure was cut by the bound are inconclusive (counted, not raised).
use crate::common::*;
use crate::corpus;
use crate::engine::*;
use crate::explore::state_key;
use crate::jsongen;
use crate::vocab::{self, VocabSpec};
use llguidance::Matcher;
use rayon::prelude::*;
use serde_json::json;
use std::collections::{HashMap, VecDeque};
use std::sync::atomic::Ordering;

struct GraphOut {
    states: u64,
    transitions: u64,
    dead_ends: u64,
    inconclusive: u64,
    closure_complete: bool,
    violation: Option<Violation>,
    refused: bool,
    outcomes: Vec<u64>,
}

fn viol(name: &str, g: &GrammarSpec, vocab: &VocabSpec, check: &str, class: &str, hist: &[u32], what: serde_json::Value) -> Violation {
    let text: Vec<u8> = hist.iter().flat_map(|t| vocab.tokens[*t as usize].clone()).collect();
    Violation {
        check: check.to_string(),
        class: class.to_string(),
        signature: format!("{}|{}|{}|{}", check, name, g.short(), show(&text)),
        detail: json!({
            "kind": "engine_history",
            "grammar": g.to_json(),
            "vocab": if vocab.n() > 300 { json!({"name": vocab.name}) } else { vocab.to_json() },
            "slices": "default",
            "history": hist,
            "text_so_far": show(&text),
            "what": what,
        }),
    }
}

fn explore_graph(name: &str, g: &GrammarSpec, f: &Factory, vocab: &VocabSpec, max_depth: usize, max_states: usize) -> GraphOut {
    let mut out = GraphOut { states: 0, transitions: 0, dead_ends: 0, inconclusive: 0, closure_complete: false, violation: None, refused: false, outcomes: vec![] };
    let Ok(root) = f.try_matcher(g) else {
        out.refused = true;
        return out;
    };
    struct Node {
        parent: u32,
        tok: u32,
        succ: Vec<u32>,
        good: bool,     // stopping is legitimate here (accepting or stopped ok)
        expanded: bool, // all successors known
    }
    let mut nodes: Vec<Node> = vec![Node { parent: u32::MAX, tok: 0, succ: vec![], good: false, expanded: false }];
    let mut index: HashMap<u128, u32> = HashMap::new();
    index.insert(state_key(&root), 0);
    let mut queue: VecDeque<(Matcher, u32, usize)> = VecDeque::new();
    queue.push_back((root, 0, 0));
    let hist_of = |nodes: &Vec<Node>, mut id: u32| {
        let mut h = vec![];
        while nodes[id as usize].parent != u32::MAX {
            h.push(nodes[id as usize].tok);
            id = nodes[id as usize].parent;
        }
        h.reverse();
        h
    };
    let mut truncated = false;
    while let Some((mut m, id, depth)) = queue.pop_front() {
        crate::watchdog::beat();
        out.states += 1;
        if m.is_error() {
            let h = hist_of(&nodes, id);
            out.violation = Some(viol(name, g, vocab, "engine_error", "engine-error-on-legal-history", &h, json!({"err": m.get_error()})));
            return out;
        }
        if m.is_stopped() {
            nodes[id as usize].good = m.stop_reason().is_ok();
            nodes[id as usize].expanded = true;
            continue;
        }
        let accepting = m.is_accepting().unwrap_or(false);
        nodes[id as usize].good = accepting;
        let mask = match m.compute_mask() {
            Ok(mk) => mk,
            Err(e) => {
                let msg = e.to_string();
                if crate::props::c01::is_resource_limit(&msg) {
                    out.refused = true;
                    return out;
                }
                // empty mask / NoExtensionBias in a non-accepting state
                let h = hist_of(&nodes, id);
                out.violation = Some(viol(name, g, vocab, "empty_mask_not_accepting", "dead-end-empty-mask", &h, json!({"err": msg, "accepting": accepting, "stop_reason": format!("{:?}", m.stop_reason())})));
                return out;
            }
        };
        out.outcomes.push(mask_hash(&mask));
        if depth >= max_depth {
            truncated = true;
            continue; // not expanded
        }
        let mut succ = vec![];
        let mut full = true;
        for t in mask.iter() {
            let mut c = m.clone();
            out.transitions += 1;
            if let Err(e) = c.consume_token(t) {
                let h = hist_of(&nodes, id);
                if crate::props::c01::is_resource_limit(&e.to_string()) {
                    out.refused = true;
                    return out;
                }
                out.violation = Some(viol(name, g, vocab, "mask_token_rejected", "mask-token-rejected", &h, json!({"token": t, "err": e.to_string()})));
                return out;
            }
            let k = state_key(&c);
            let cid = match index.get(&k) {
                Some(i) => *i,
                None => {
                    if nodes.len() >= max_states {
                        truncated = true;
                        full = false;
                        continue;
                    }
                    let i = nodes.len() as u32;
                    index.insert(k, i);
                    nodes.push(Node { parent: id, tok: t, succ: vec![], good: false, expanded: false });
                    queue.push_back((c, i, depth + 1));
                    i
                }
            };
            succ.push(cid);
        }
        succ.sort();
        succ.dedup();
        nodes[id as usize].succ = succ;
        nodes[id as usize].expanded = full;
    }
    // backward closure from good or unexpanded nodes
    let n = nodes.len();
    let mut rev: Vec<Vec<u32>> = vec![vec![]; n];
    for (i, nd) in nodes.iter().enumerate() {
        for s in nd.succ.iter() {
            rev[*s as usize].push(i as u32);
        }
    }
    let mut maybe = vec![false; n];
    let mut sure = vec![false; n];
    let mut work: Vec<u32> = vec![];
    for (i, nd) in nodes.iter().enumerate() {
        if nd.good || !nd.expanded {
            maybe[i] = true;
            work.push(i as u32);
        }
    }
    while let Some(x) = work.pop() {
        for p in rev[x as usize].iter() {
            if !maybe[*p as usize] {
                maybe[*p as usize] = true;
                work.push(*p);
            }
        }
    }
    let mut work: Vec<u32> = vec![];
    for (i, nd) in nodes.iter().enumerate() {
        if nd.good {
            sure[i] = true;
            work.push(i as u32);
        }
    }
    while let Some(x) = work.pop() {
        for p in rev[x as usize].iter() {
            if !sure[*p as usize] {
                sure[*p as usize] = true;
                work.push(*p);
            }
        }
    }
    for i in 0..n {
        if !maybe[i] {
            out.dead_ends += 1;
            if out.violation.is_none() {
                let h = hist_of(&nodes, i as u32);
                out.violation = Some(viol(name, g, vocab, "definite_dead_end", "dead-end-no-completion", &h,
                    json!({"explanation": "the forward closure of this state was explored completely and contains no accepting state"})));
            }
        } else if !sure[i] {
            out.inconclusive += 1;
        }
    }
    out.closure_complete = !truncated;
    out
}

fn c03_items(ctx: &Ctx) -> Vec<(String, GrammarSpec, Vec<Vec<u8>>)> {
    let mut v = vec![];
    for (i, s) in jsongen::all_schemas_x(ctx.quick()).into_iter().enumerate() {
        v.push((format!("js{i}"), GrammarSpec::Json(s), vec![]));
    }
    for it in corpus::json_items().into_iter().chain(corpus::regex_items()) {
        v.push((it.name.clone(), it.g.clone(), it.sentences.clone()));
    }
    let ok_lark = ["ab-seq", "alt-x", "digits", "nested", "list", "opt", "rep", "lrec", "rrec", "ambig", "nullable", "term-cat", "greedy-overlap", "utf8", "case-insens", "long-literal", "param-uniq", "param-perm", "param-count", "empty-alt", "group-rep", "mutual", "json-inline", "two-json", "substr", "and-alt", "and-seq"];
    for it in corpus::lark_items() {
        if ok_lark.contains(&it.name.as_str()) {
            v.push((it.name.clone(), it.g.clone(), it.sentences.clone()));
        }
    }
    for it in crate::gen::lark_family(ctx.tier.pick(4, 5)) {
        v.push((it.name.clone(), it.g.clone(), it.sentences.clone()));
    }
    // parametric grammars (hand-written + generated C05 family) whose reference has no dead end: every viable
    // prefix of <= 8 bytes over the grammar's letters (reference Earley set non-empty) extends to an accepted string
    // within the explored graph -- the scope guard "no unproductive rules", decided on the reference, not on the engine
    let mut pgs = crate::refs::cfg_earley::parametric_grammars();
    pgs.extend(crate::refs::cfg_earley::generated_parametric());
    for pg in pgs {
        if reference_has_no_dead_end(&pg.bnf) {
            v.push((pg.name.to_string(), GrammarSpec::Lark(pg.lark.clone()), vec![]));
            ctx.count("parametric_items", 1);
        } else {
            ctx.count("parametric_items_with_reference_dead_end_or_open_closure", 1);
        }
    }
    v
}

fn reference_has_no_dead_end(bnf: &crate::refs::cfg_earley::Bnf) -> bool {
    use crate::refs::cfg_earley::Earley;
    use std::collections::HashMap;
    let e = Earley::new(bnf);
    let alphabet: Vec<u8> = b"abcdefpqxz!".to_vec();
    let mut ids: HashMap<u64, usize> = HashMap::new();
    let mut charts = vec![e.start()];
    ids.insert(e.key(&charts[0]), 0);
    let mut succ: Vec<Vec<usize>> = vec![vec![]];
    let mut depth = vec![0usize];
    let mut i = 0;
    while i < charts.len() {
        if charts.len() > 3000 {
            return false; // closure not reached within the cap: not used
        }
        if depth[i] < 10 {
            for b in alphabet.iter() {
                if let Some(c) = e.step(&charts[i], *b) {
                    let k = e.key(&c);
                    let id = *ids.entry(k).or_insert_with(|| {
                        charts.push(c);
                        succ.push(vec![]);
                        depth.push(depth[i] + 1);
                        charts.len() - 1
                    });
                    succ[i].push(id);
                }
            }
        } else {
            return false; // open closure
        }
        i += 1;
    }
    // backward closure from accepting charts
    let n = charts.len();
    let mut good: Vec<bool> = (0..n).map(|i| e.accepting(&charts[i])).collect();
    loop {
        let mut changed = false;
        for i in 0..n {
            if !good[i] && succ[i].iter().any(|j| good[*j]) {
                good[i] = true;
                changed = true;
            }
        }
        if !changed {
            break;
        }
    }
    good.iter().all(|g| *g)
}

pub fn run(ctx: &Ctx) -> Coverage {
    let items = c03_items(ctx);
    let b256 = vocab::b256();
    // B256 + multi-byte tokens common in JSON
    let mut b256m = vocab::b256();
    b256m.tokens.pop();
    for t in ["\",\"", "\":", "{\"", "\"}", "true", "false", "null", "10", "00", "-1", "0.", ".5", "e+", "\":\"", "[\"", "\"]", ", ", "ab", "a\"", "\\n", "\\u", "12", "2024", "-0", ":0", "T1", "Z\"", "00:", "é"] {
        b256m.tokens.push(t.as_bytes().to_vec());
    }
    b256m.tokens.push(vocab::EOS_BYTES.to_vec());
    b256m.eos = b256m.tokens.len() as u32 - 1;
    b256m.name = "B256+M".into();
    let vocabs = if ctx.quick() { vec![b256m] } else { vec![b256, b256m] };
    let depth = ctx.tier.pick(10, 16);
    let max_states = ctx.tier.pick(10000, 100000);
    let jobs: Vec<(usize, usize)> = (0..items.len()).flat_map(|i| (0..vocabs.len()).map(move |v| (i, v))).collect();
    jobs.par_iter().for_each(|(i, v)| {
        if ctx.over_budget() {
            ctx.count("jobs_skipped_budget", 1);
            return;
        }
        let (name, g, _) = &items[*i];
        let vocab = &vocabs[*v];
        let Ok(f) = Factory::new(vocab, &Slices::Default) else { return };
        let out = explore_graph(name, g, &f, vocab, depth, max_states);
        ctx.count("jobs_run", 1);
        if out.refused {
            ctx.count("refused_or_resource_limited", 1);
            if ctx.get_count("refused_or_resource_limited") <= 30 {
                let e = f.try_matcher(g).err().unwrap_or("resource limit during exploration".into());
                ctx.note(format!("refused: {} -> {}", g.short(), e.lines().next().unwrap_or("")));
            }
            return;
        }
        ctx.states.fetch_add(out.states, Ordering::Relaxed);
        ctx.transitions.fetch_add(out.transitions, Ordering::Relaxed);
        ctx.validated.fetch_add(out.transitions, Ordering::Relaxed);
        ctx.outcomes_extend(out.outcomes);
        ctx.count("states_inconclusive_closure_cut", out.inconclusive);
        ctx.count("definite_dead_ends", out.dead_ends);
        if out.closure_complete {
            ctx.count("graphs_closed", 1);
        } else {
            ctx.count("graphs_bounded", 1);
        }
        if let Some(vv) = out.violation {
            ctx.violation(vv);
        }
        ctx.sample(json!({"grammar": g.short(), "vocab": vocab.name}));
    });
    if ctx.get_count("graphs_closed") == 0 {
        ctx.machinery_error("vacuous run: no state graph closed");
    }
    Coverage::StateGraph {
        rule: format!("reachable state graph of the real engine (dedup on the committed-state key) over byte-complete vocabularies (all 255 ordinary bytes, specials, EOS; plus 28 multi-byte JSON tokens), depth {depth}, <= {max_states} states per grammar; empty mask / NoExtensionBias in a non-accepting state is a violation; a state whose completely explored forward closure has no accepting state is a definite dead end; states whose closure was cut by the bound are counted as inconclusive"),
    }
}
