//! C07 — every valid JSON instance in canonical form can be generated.
//! Instances are enumerated from a finite universe guided by the schema, filtered by the
//! reference validator, serialised by serde_json with keys in schema order, and fed token by
//! token (every segmentation for short texts) through mask + commit of the real engine.
use crate::common::*;
use crate::engine::*;
use crate::jsongen;
use crate::refs::json_validate::*;
use crate::vocab::{self, VocabSpec};
use rayon::prelude::*;
use serde_json::{json, Map, Value};
use std::collections::BTreeSet;
use std::sync::atomic::Ordering;

struct Gen<'a> {
    root: &'a Value,
    /// candidates kept per nested position (deterministic spread) and per partial combination list
    nested_cap: usize,
    combo_cap: usize,
}

fn num_window(o: &Map<String, Value>, integer: bool) -> Vec<Value> {
    let mut out: Vec<Value> = vec![];
    let mut ints: BTreeSet<i64> = [0i64, 1, -1, 2, 7, 12, 100].into_iter().collect();
    for k in ["minimum", "maximum", "exclusiveMinimum", "exclusiveMaximum"] {
        if let Some(b) = o.get(k).and_then(|x| x.as_f64()) {
            for d in -2..=2 {
                ints.insert(b.floor() as i64 + d);
                ints.insert(b.ceil() as i64 + d);
            }
        }
    }
    if let Some(m) = o.get("multipleOf").and_then(|x| x.as_f64()) {
        if m >= 1.0 {
            for k in -3..=6 {
                ints.insert((m as i64) * k);
            }
        }
    }
    for i in ints.iter() {
        out.push(json!(i));
    }
    if !integer {
        for i in ints.iter() {
            for f in [0.5, 0.25] {
                out.push(json!(*i as f64 + f));
            }
        }
        for k in ["minimum", "maximum", "exclusiveMinimum", "exclusiveMaximum"] {
            if let Some(b) = o.get(k) {
                if b.is_f64() {
                    out.push(b.clone());
                }
            }
        }
    }
    out
}

fn string_universe() -> Vec<&'static str> {
    vec!["", "a", "b", "ab", "abc", "abcd", "a\"", "\\", "a\nb", "é", "😀", "aé", "\t", "\u{1}", " a", "/", "\u{7f}", "\u{80}", "\u{2028}"]
}

impl<'a> Gen<'a> {
    fn resolve(&self, r: &str) -> Option<&'a Value> {
        if r == "#" {
            return Some(self.root);
        }
        let mut cur = self.root;
        for seg in r.strip_prefix("#/")?.split('/') {
            cur = cur.get(seg)?;
        }
        Some(cur)
    }

    /// candidate instances (a superset; the reference validator filters)
    fn cands(&self, schema: &Value, depth: usize, cap: usize) -> Vec<Value> {
        let mut v = self.cands_inner(schema, depth);
        let val = Validator::new(self.root);
        v.retain(|x| val.valid(schema, &from_value(x)));
        let mut seen = BTreeSet::new();
        v.retain(|x| seen.insert(x.to_string()));
        if v.len() > cap {
            // keep a spread: first, last and evenly spaced (deterministic bound, reported in rule)
            let n = v.len();
            let idx: BTreeSet<usize> = (0..cap).map(|i| i * (n - 1) / (cap - 1).max(1)).collect();
            v = idx.into_iter().map(|i| v[i].clone()).collect();
        }
        v
    }

    fn cands_inner(&self, schema: &Value, depth: usize) -> Vec<Value> {
        if depth > 4 {
            return vec![];
        }
        let o = match schema {
            Value::Bool(true) => return vec![json!(null), json!(1), json!("a")],
            Value::Bool(false) => return vec![],
            Value::Object(o) => o,
            _ => return vec![],
        };
        if let Some(Value::Array(all)) = o.get("allOf") {
            // superset: candidates of the schema without the allOf and of every branch (the validator filters)
            let mut rest = o.clone();
            rest.remove("allOf");
            let mut out = if rest.keys().any(|k| k != "$defs" && k != "x-guidance") { self.cands_inner(&Value::Object(rest), depth + 1) } else { vec![] };
            for b in all.iter() {
                out.extend(self.cands_inner(b, depth + 1));
            }
            return out;
        }
        if let Some(c) = o.get("const") {
            return vec![c.clone()];
        }
        if let Some(Value::Array(e)) = o.get("enum") {
            return e.clone();
        }
        if let Some(r) = o.get("$ref").and_then(|x| x.as_str()) {
            return match self.resolve(r) {
                Some(t) => self.cands_inner(t, depth + 1),
                None => vec![],
            };
        }
        if let Some(Value::Array(a)) = o.get("anyOf") {
            return a.iter().flat_map(|s| self.cands_inner(s, depth + 1)).collect();
        }
        let types: Vec<String> = match o.get("type") {
            Some(Value::String(s)) => vec![s.clone()],
            Some(Value::Array(a)) => a.iter().filter_map(|x| x.as_str().map(|s| s.to_string())).collect(),
            _ => vec!["null".into(), "boolean".into(), "integer".into(), "number".into(), "string".into(), "array".into(), "object".into()],
        };
        let untyped = o.get("type").is_none();
        let mut out = vec![];
        for t in types {
            match t.as_str() {
                "null" => out.push(json!(null)),
                "boolean" => {
                    out.push(json!(true));
                    out.push(json!(false));
                }
                "integer" => out.extend(num_window(o, true)),
                "number" => out.extend(num_window(o, false)),
                "string" => {
                    for s in string_universe() {
                        out.push(json!(s));
                    }
                    if let Some(mx) = o.get("maxLength").and_then(|x| x.as_u64()) {
                        out.push(json!("a".repeat(mx as usize)));
                        out.push(json!("é".repeat(mx as usize)));
                    }
                    if let Some(mn) = o.get("minLength").and_then(|x| x.as_u64()) {
                        out.push(json!("b".repeat(mn as usize)));
                    }
                }
                "array" => {
                    let prefix: Vec<Value> = o.get("prefixItems").and_then(|x| x.as_array()).cloned().unwrap_or_default();
                    let items = o.get("items").cloned().unwrap_or(json!(true));
                    let maxl = if untyped { 1 } else { 3 };
                    for len in 0..=maxl {
                        let mut partial: Vec<Vec<Value>> = vec![vec![]];
                        for i in 0..len {
                            let s = if i < prefix.len() { &prefix[i] } else { &items };
                            let cs = self.cands(s, depth + 1, self.nested_cap);
                            let mut next = vec![];
                            for p in partial.iter() {
                                for c in cs.iter() {
                                    let mut q = p.clone();
                                    q.push(c.clone());
                                    next.push(q);
                                }
                            }
                            partial = next;
                            if partial.len() > self.combo_cap {
                                partial.truncate(self.combo_cap);
                            }
                        }
                        for p in partial {
                            if p.len() == len {
                                out.push(Value::Array(p));
                            }
                        }
                    }
                }
                "object" => {
                    let props: Vec<(String, Value)> = o.get("properties").and_then(|x| x.as_object()).map(|m| m.iter().map(|(k, v)| (k.clone(), v.clone())).collect()).unwrap_or_default();
                    let req: Vec<String> = o.get("required").and_then(|x| x.as_array()).map(|a| a.iter().filter_map(|x| x.as_str().map(|s| s.to_string())).collect()).unwrap_or_default();
                    let addl = o.get("additionalProperties").cloned().unwrap_or(json!(true));
                    let mut partial: Vec<Map<String, Value>> = vec![Map::new()];
                    for (k, s) in props.iter() {
                        let cs = self.cands(s, depth + 1, if untyped { 1 } else { self.nested_cap });
                        let mut next = vec![];
                        for p in partial.iter() {
                            if !req.contains(k) {
                                next.push(p.clone());
                            }
                            for c in cs.iter() {
                                let mut q = p.clone();
                                q.insert(k.clone(), c.clone());
                                next.push(q);
                            }
                        }
                        partial = next;
                        if partial.len() > self.combo_cap + 20 {
                            partial.truncate(self.combo_cap + 20);
                        }
                    }
                    // required names that are not declared come after the declared ones
                    for r in req.iter() {
                        if !props.iter().any(|(k, _)| k == r) {
                            let cs = self.cands(&addl, depth + 1, 2);
                            let mut next = vec![];
                            for p in partial.iter() {
                                for c in cs.iter() {
                                    let mut q = p.clone();
                                    q.insert(r.clone(), c.clone());
                                    next.push(q);
                                }
                            }
                            partial = next;
                        }
                    }
                    let extra_vals = if addl == json!(false) { vec![] } else { self.cands(&addl, depth + 1, 2) };
                    // keys for patternProperties: a small pool per pattern (search semantics, as the validator)
                    let mut pat_members: Vec<(String, Value)> = vec![];
                    if let Some(pp) = o.get("patternProperties").and_then(|x| x.as_object()) {
                        for (pat, ps) in pp.iter() {
                            if let Ok(rx) = regex::Regex::new(pat) {
                                let vals = self.cands(ps, depth + 1, 2);
                                for k in ["x", "xa", "x-a", "x1", "y", "a", "ax"] {
                                    if rx.is_match(k) {
                                        for v in vals.iter() {
                                            pat_members.push((k.to_string(), v.clone()));
                                        }
                                    }
                                }
                            }
                        }
                    }
                    for p in partial {
                        for (i, (k, v)) in pat_members.iter().enumerate() {
                            if !p.contains_key(k) {
                                let mut q = p.clone();
                                q.insert(k.clone(), v.clone());
                                if let Some((k2, v2)) = pat_members.get(i + 1) {
                                    if k2 != k {
                                        let mut q2 = q.clone();
                                        q2.insert(k2.clone(), v2.clone());
                                        out.push(Value::Object(q2));
                                    }
                                }
                                out.push(Value::Object(q));
                            }
                        }
                        out.push(Value::Object(p.clone()));
                        if !untyped {
                            for (n_extra, keys) in [(1usize, vec!["zz"]), (2, vec!["zz", "a b"]), (1, vec!["é\"k"])] {
                                for ev in extra_vals.iter() {
                                    let mut q = p.clone();
                                    for k in keys.iter().take(n_extra) {
                                        if !q.contains_key(*k) {
                                            q.insert(k.to_string(), ev.clone());
                                        }
                                    }
                                    out.push(Value::Object(q));
                                }
                            }
                        }
                    }
                }
                _ => {}
            }
        }
        out
    }
}

/// all segmentations of `text` into tokens of the vocabulary (DFS over the trie)
fn segmentations(trie: &toktrie::TokTrie, text: &[u8], limit: usize) -> Vec<Vec<u32>> {
    let mut out = vec![];
    fn rec(trie: &toktrie::TokTrie, text: &[u8], pos: usize, cur: &mut Vec<u32>, out: &mut Vec<Vec<u32>>, limit: usize) {
        if out.len() >= limit {
            return;
        }
        if pos == text.len() {
            out.push(cur.clone());
            return;
        }
        for len in 1..=(text.len() - pos).min(6) {
            if let Some(t) = trie.token_id(&text[pos..pos + len]) {
                cur.push(t);
                rec(trie, text, pos + len, cur, out, limit);
                cur.pop();
            }
        }
    }
    rec(trie, text, 0, &mut vec![], &mut out, limit);
    out
}

fn greedy_from(trie: &toktrie::TokTrie, text: &[u8], first_len: usize) -> Option<Vec<u32>> {
    let mut v = vec![];
    let mut pos = 0;
    if first_len > 0 && first_len <= text.len() {
        v.push(trie.token_id(&text[..first_len])?);
        pos = first_len;
    }
    v.extend(trie.greedy_tokenize(&text[pos..]));
    Some(v)
}

/// feed tokens through mask + commit; Err(position, reason)
fn feed(m0: &llguidance::Matcher, toks: &[u32]) -> Result<(), (usize, String)> {
    crate::watchdog::beat();
    let mut m = m0.clone();
    for (i, t) in toks.iter().enumerate() {
        if m.is_stopped() {
            return Err((i, "engine stopped before the end of the instance".into()));
        }
        let mask = m.compute_mask().map_err(|e| (i, format!("mask error: {e}")))?;
        if !mask.is_allowed(*t) {
            return Err((i, "token not in mask".into()));
        }
        m.consume_token(*t).map_err(|e| (i, format!("commit failed: {e}")))?;
    }
    let ok = if m.is_stopped() { m.stop_reason().is_ok() } else { m.is_accepting().unwrap_or(false) };
    if ok {
        Ok(())
    } else {
        Err((toks.len(), "final state not accepting".into()))
    }
}

fn with_spaces(text: &[u8]) -> Vec<Vec<u8>> {
    // one space at each legal position outside strings (after { [ , : and before } ])
    let mut pos = vec![];
    let mut in_str = false;
    let mut esc = false;
    for (i, b) in text.iter().enumerate() {
        if in_str {
            if esc {
                esc = false;
            } else if *b == b'\\' {
                esc = true;
            } else if *b == b'"' {
                in_str = false;
            }
            continue;
        }
        match b {
            b'"' => in_str = true,
            b'{' | b'[' | b',' | b':' => pos.push(i + 1),
            b'}' | b']' => pos.push(i),
            _ => {}
        }
    }
    pos.sort();
    pos.dedup();
    let mut out = vec![];
    for p in pos.iter() {
        let mut t = text.to_vec();
        t.insert(*p, b' ');
        out.push(t);
    }
    if pos.len() >= 2 {
        let mut t = text.to_vec();
        t.insert(pos[pos.len() - 1], b'\n');
        t.insert(pos[0], b' ');
        out.push(t);
    }
    out
}

/// "the same holds with the whitespace the schema's whitespace options permit": for each x-guidance whitespace
/// option documented in docs/json_schema.md, every canonical instance with every permitted whitespace string at
/// every single legal position, and at all positions at once, must be accepted.
fn whitespace_options_pass(ctx: &Ctx) {
    let b256 = vocab::b256();
    let schemas: Vec<(Value, Vec<Value>)> = vec![
        (json!({"type": "object", "properties": {"a": {"type": "integer"}, "b": {"type": "array", "items": {"type": "boolean"}, "maxItems": 2}}, "required": ["a", "b"], "additionalProperties": false}),
            vec![json!({"a": 1, "b": []}), json!({"a": -5, "b": [true, false]})]),
        (json!({"type": "array", "items": {"type": "object", "properties": {"k": {"type": "string", "maxLength": 1}}, "required": ["k"], "additionalProperties": false}, "maxItems": 2}),
            vec![json!([]), json!([{"k": "x"}, {"k": ""}])]),
        (json!({"type": "object", "additionalProperties": {"type": "null"}, "maxProperties": 2}), vec![json!({}), json!({"p": null, "q": null})]),
    ];
    // (x-guidance, permitted whitespace strings, positions: 0 = JSON positions (after { [ , : / before } ]), 1 = around , and :)
    let options: Vec<(Value, Vec<&str>, u8)> = vec![
        (json!({"whitespace_flexible": true}), vec![" ", "\n", " \t\r\n"], 0),
        (json!({"whitespace_pattern": "[ ]{0,2}"}), vec![" ", "  "], 0),
        (json!({"whitespace_pattern": "[\\x20\\x0A]{1,3}"}), vec![" ", "\n ", " \n "], 0),
        (json!({"item_separator": "\\s{0,2},\\s{0,2}", "key_separator": "\\s{0,2}:\\s{0,2}", "whitespace_flexible": false}), vec![" ", "  "], 1),
    ];
    for (schema, insts) in schemas.iter() {
        for (opt, wss, posmode) in options.iter() {
            let mut sc = schema.clone();
            sc["x-guidance"] = opt.clone();
            let f = Factory::new(&b256, &Slices::Default).unwrap();
            let root = match f.try_matcher(&GrammarSpec::Json(sc.clone())) {
                Ok(r) => r,
                Err(e) => {
                    ctx.violation(Violation { check: "whitespace_option_refused".into(), class: "json-supported-schema-refused".into(), signature: format!("wsopt-refused|{}", sc), detail: json!({"kind": "json_instance", "schema": sc, "error": e}) });
                    continue;
                }
            };
            for inst in insts.iter() {
                let text = serde_json::to_string(inst).unwrap().into_bytes();
                // legal positions
                let mut pos = vec![];
                let (mut in_str, mut esc) = (false, false);
                for (i, b) in text.iter().enumerate() {
                    if in_str {
                        if esc {
                            esc = false;
                        } else if *b == b'\\' {
                            esc = true;
                        } else if *b == b'"' {
                            in_str = false;
                        }
                        continue;
                    }
                    match (b, posmode) {
                        (b'"', _) => in_str = true,
                        (b'{' | b'[', 0) => pos.push(i + 1),
                        (b',' | b':', 0) => pos.push(i + 1),
                        (b'}' | b']', 0) => pos.push(i),
                        (b',' | b':', 1) => {
                            pos.push(i);
                            pos.push(i + 1);
                        }
                        _ => {}
                    }
                }
                pos.sort();
                pos.dedup();
                let mut variants: Vec<Vec<u8>> = vec![text.clone()];
                for ws in wss.iter() {
                    for p in pos.iter() {
                        let mut t = text.clone();
                        t.splice(*p..*p, ws.bytes());
                        variants.push(t);
                    }
                    // all positions at once (from the back so that offsets stay valid); `{}` / `[]` have one position
                    // listed once thanks to dedup
                    let mut t = text.clone();
                    for p in pos.iter().rev() {
                        t.splice(*p..*p, ws.bytes());
                    }
                    variants.push(t);
                }
                for v in variants {
                    let toks: Vec<u32> = v.iter().map(|b| f.env.tok_trie().token_id(&[*b]).unwrap_or(0)).collect();
                    ctx.validated.fetch_add(1, Ordering::Relaxed);
                    ctx.transitions.fetch_add(toks.len() as u64, Ordering::Relaxed);
                    ctx.count("whitespace_option_variants", 1);
                    if let Err((at, reason)) = feed(&root, &toks) {
                        ctx.violation(Violation {
                            check: "whitespace_option".into(),
                            class: "json-permitted-whitespace-refused".into(),
                            signature: format!("wsopt|{}|{}", sc, show(&v)),
                            detail: json!({"kind": "json_instance", "schema": sc, "instance": inst, "text": show(&v), "failed_at_byte": at, "reason": reason}),
                        });
                        break;
                    }
                }
            }
        }
    }
}

fn c07_schemas(ctx: &Ctx) -> Vec<Value> {
    let mut v = vec![];
    for s in jsongen::numeric_schemas(ctx.quick()) {
        // integer multipleOf only
        if let Some(m) = s.get("multipleOf") {
            if m.as_f64().map_or(true, |f| f.fract() != 0.0) || s["type"] == "number" {
                continue;
            }
        }
        v.push(s);
    }
    for s in jsongen::string_schemas(true) {
        if s.get("pattern").is_none() && s.get("format").is_none() {
            v.push(s);
        }
    }
    v.extend(jsongen::array_schemas());
    for s in jsongen::object_schemas() {
        if s.get("minProperties").is_none() && s.get("maxProperties").is_none() {
            v.push(s);
        }
    }
    v.extend(jsongen::applicator_split_schemas());
    for s in jsongen::combinator_schemas() {
        if s.get("allOf").is_none() && s.get("oneOf").is_none() && s.get("x-guidance").is_none() && s.get("pattern").is_none() && s.get("format").is_none() && !s.to_string().contains("multipleOf\":3") {
            v.push(s);
        }
    }
    v.extend(jsongen::ref_chain_schemas());
    for s in jsongen::unsat_leaf_schemas() {
        // (the whitespace variants of this check assume the default whitespace options)
        if !s.to_string().contains("allOf") && !s.to_string().contains("pattern") && s.get("x-guidance").is_none() {
            v.push(s);
        }
    }
    v.push(json!({"const": 5.0}));
    v.push(json!({"enum": [1.5, 2.0, "x"]}));
    v.push(json!({"type": "object", "properties": {"a": {"type": "integer"}, "b": {"type": "string", "maxLength": 2}, "c": {"type": "array", "items": {"type": "boolean"}, "maxItems": 2}}, "required": ["b"]}));
    v
}

pub fn run(ctx: &Ctx) -> Coverage {
    whitespace_options_pass(ctx);
    let ss = c07_schemas(ctx);
    ctx.note(format!("{} schemas", ss.len()));
    let b256 = vocab::b256();
    let top_cap = ctx.tier.pick(200, 4000);
    let nested_cap = ctx.tier.pick(3, 8);
    let combo_cap = ctx.tier.pick(40, 600);
    ss.par_iter().for_each(|schema| {
        if ctx.over_budget() {
            ctx.count("schemas_skipped_budget", 1);
            return;
        }
        let g = GrammarSpec::Json(schema.clone());
        let fb = Factory::new(&b256, &Slices::Default).unwrap();
        let root_b = match fb.try_matcher(&g) {
            Ok(r) => r,
            Err(e) => {
                ctx.count("schemas_refused", 1);
                let gen = Gen { root: schema, nested_cap, combo_cap };
                let n = gen.cands(schema, 0, top_cap).len();
                if n > 0 {
                    // a schema of the supported subset with a valid instance must compile: refusing it
                    // loses every instance at once
                    ctx.violation(Violation {
                        check: "schema_refused".into(),
                        class: "supported-schema-with-instances-refused".into(),
                        signature: format!("refused|{}", schema),
                        detail: json!({"kind": "json_instance", "schema": schema, "valid_instances_in_universe": n, "error": e.lines().next().unwrap_or("")}),
                    });
                } else {
                    ctx.count("schemas_refused_without_valid_instance", 1);
                }
                return;
            }
        };
        let gen = Gen { root: schema, nested_cap, combo_cap };
        let insts = gen.cands(schema, 0, top_cap);
        if insts.is_empty() {
            ctx.count("schemas_without_instances", 1);
            return;
        }
        ctx.states.fetch_add(1, Ordering::Relaxed);
        let texts: Vec<Vec<u8>> = insts.iter().map(|i| serde_json::to_string(i).unwrap().into_bytes()).collect();
        // multi-byte vocabulary from the serialisations of this schema's instances
        let mut mv = vocab::b256();
        mv.tokens.pop();
        let mut seen: BTreeSet<Vec<u8>> = BTreeSet::new();
        'outer: for t in texts.iter() {
            for len in 2..=4usize {
                if t.len() < len {
                    continue;
                }
                for i in 0..=(t.len() - len) {
                    let s = t[i..i + len].to_vec();
                    if !s.contains(&0xFF) && seen.insert(s.clone()) {
                        mv.tokens.push(s);
                        if mv.tokens.len() > 700 {
                            break 'outer;
                        }
                    }
                }
            }
        }
        mv.tokens.push(vocab::EOS_BYTES.to_vec());
        mv.eos = mv.tokens.len() as u32 - 1;
        mv.name = format!("B256+S({})", mv.tokens.len());
        let mv: VocabSpec = mv;
        let fm = Factory::new(&mv, &Slices::Default).unwrap();
        let root_m = fm.try_matcher(&g).ok();
        let report = |what: &str, inst: &Value, text: &[u8], vocab: &VocabSpec, toks: &[u32], pos: usize, reason: &str| {
            let class = classify(inst, text, schema);
            ctx.violation(Violation {
                check: what.to_string(),
                class: class.clone(),
                signature: format!("{}|{}|{}|{}", class, schema, show(text), if what == "bytes" { String::new() } else { format!("{:?}", toks) }),
                detail: json!({"kind": "json_instance", "schema": schema, "instance": inst, "text": show(text), "vocab": vocab.name,
                    "tokens": toks.iter().map(|t| show(&vocab.tokens[*t as usize])).collect::<Vec<_>>(), "failed_at_token": pos, "reason": reason}),
            });
        };
        for (inst, text) in insts.iter().zip(texts.iter()) {
            ctx.count("instances", 1);
            ctx.outcome(fnv(text) ^ fnv(schema.to_string().as_bytes()));
            // single bytes
            let toks: Vec<u32> = text.iter().map(|b| fb.env.tok_trie().token_id(&[*b]).unwrap_or(0)).collect();
            ctx.transitions.fetch_add(toks.len() as u64, Ordering::Relaxed);
            ctx.validated.fetch_add(1, Ordering::Relaxed);
            if let Err((pos, reason)) = feed(&root_b, &toks) {
                report("bytes", inst, text, &b256, &toks, pos, &reason);
                continue;
            }
            // whitespace variants (byte level)
            for wt in with_spaces(text) {
                let toks: Vec<u32> = wt.iter().map(|b| fb.env.tok_trie().token_id(&[*b]).unwrap_or(0)).collect();
                ctx.validated.fetch_add(1, Ordering::Relaxed);
                ctx.count("whitespace_variants", 1);
                if let Err((pos, reason)) = feed(&root_b, &toks) {
                    report("whitespace", inst, &wt, &b256, &toks, pos, &reason);
                    break;
                }
            }
            // segmentations over the multi-byte vocabulary
            if let Some(root_m) = &root_m {
                let trie = fm.env.tok_trie();
                let segs = if text.len() <= 14 {
                    ctx.count("instances_all_segmentations", 1);
                    segmentations(trie, text, 3000)
                } else {
                    ctx.count("instances_greedy_plus_shifted", 1);
                    (0..3).filter_map(|k| greedy_from(trie, text, k)).collect()
                };
                for s in segs {
                    ctx.count("segmentations_fed", 1);
                    ctx.validated.fetch_add(1, Ordering::Relaxed);
                    ctx.transitions.fetch_add(s.len() as u64, Ordering::Relaxed);
                    if let Err((pos, reason)) = feed(root_m, &s) {
                        report("segmentation", inst, text, &mv, &s, pos, &reason);
                        break;
                    }
                }
            }
        }
        ctx.sample(json!({"schema": schema, "instances": insts.len(), "first": insts.iter().take(4).collect::<Vec<_>>()}));
    });
    if ctx.get_count("instances") < 200 || ctx.get_count("segmentations_fed") == 0 {
        ctx.machinery_error("vacuous run: too few instances or no segmentation fed");
    }
    Coverage::StateGraph {
        rule: format!("whitespace options pass: 3 schemas x 4 documented x-guidance settings (whitespace_flexible, two whitespace_pattern bounds, item_separator/key_separator patterns), every permitted whitespace string at every single legal position and at all positions at once; then {} schemas of the fully supported subset; for each, instances from a schema-guided finite universe (integers around every bound, x.5/x.25 decimals, 19 strings incl. escapes, 2- and 4-byte characters and control characters, arrays to length 3, objects over every subset of optional declared properties plus up to two additional keys, recursive $ref to depth 4; nested positions capped at {nested_cap} candidates, top level at {top_cap}) filtered by the reference validator, serialised by serde_json (keys in schema order); each is fed byte by byte, with one whitespace byte at every legal position, and under every segmentation into a schema-derived multi-byte vocabulary (all segmentations for texts <= 14 bytes, else greedy + two shifted); states = schemas, traces = fed token sequences", ss.len()),
    }
}

fn classify(inst: &Value, text: &[u8], _schema: &Value) -> String {
    fn has_float_integral(v: &Value) -> bool {
        match v {
            Value::Number(n) => n.is_f64() && n.as_f64().map_or(false, |f| f.fract() == 0.0),
            Value::Array(a) => a.iter().any(has_float_integral),
            Value::Object(o) => o.values().any(has_float_integral),
            _ => false,
        }
    }
    if text.contains(&0x7f) {
        return "json-instance-raw-del-refused".into();
    }
    if has_float_integral(inst) {
        return "json-instance-float-valued-integral-refused".into();
    }
    "json-valid-instance-refused".into()
}
