pub mod c01;
pub mod replay;

use crate::common::{Coverage, Ctx};

pub fn dispatch(ctx: &Ctx) -> Option<Coverage> {
    Some(match ctx.prop.as_str() {
        "C01" => c01::run(ctx),
        _ => return None,
    })
}
