//! C06 — output generated under a JSON-schema constraint always validates.
//! Lexeme-level depth-first enumeration of the outputs the masks admit (structural bytes followed
//! one by one, string and number positions filled from schema-derived pools), each complete
//! output checked by the reference parser + Draft 2020-12 validator.
use crate::common::*;
use crate::corpus;
use crate::engine::*;
use crate::jsongen;
use crate::refs::json_validate::*;
use crate::vocab;
use llguidance::Matcher;
use rayon::prelude::*;
use serde_json::{json, Value};
use std::collections::BTreeSet;
use std::sync::atomic::Ordering;

fn json_str_lit(s: &str) -> Vec<u8> {
    // compact canonical JSON string literal
    serde_json::to_string(s).unwrap().into_bytes()
}

fn collect(schema: &Value, strings: &mut BTreeSet<String>, numbers: &mut BTreeSet<String>, lens: &mut BTreeSet<usize>, formats: &mut BTreeSet<String>, depth: usize) {
    if depth > 12 {
        return;
    }
    match schema {
        Value::Object(o) => {
            for (k, v) in o {
                match k.as_str() {
                    "properties" | "patternProperties" | "$defs" | "definitions" => {
                        if let Value::Object(ps) = v {
                            for (pk, pv) in ps {
                                if k == "properties" {
                                    strings.insert(pk.clone());
                                }
                                if k == "patternProperties" {
                                    // a key the pattern plausibly matches: its literal characters
                                    let lit: String = pk.chars().filter(|c| c.is_alphanumeric()).collect();
                                    if !lit.is_empty() && lit.len() <= 4 {
                                        strings.insert(format!("{lit}1"));
                                    }
                                }
                                collect(pv, strings, numbers, lens, formats, depth + 1);
                            }
                        }
                    }
                    "required" => {
                        if let Value::Array(a) = v {
                            for x in a {
                                if let Some(s) = x.as_str() {
                                    strings.insert(s.to_string());
                                }
                            }
                        }
                    }
                    "enum" | "const" => collect_values(v, strings, numbers),
                    "minimum" | "maximum" | "exclusiveMinimum" | "exclusiveMaximum" | "multipleOf" => {
                        if let Some(n) = v.as_number() {
                            numbers.insert(n.to_string());
                        }
                    }
                    "minLength" | "maxLength" => {
                        if let Some(n) = v.as_u64() {
                            lens.insert(n as usize);
                        }
                    }
                    "format" => {
                        if let Some(s) = v.as_str() {
                            formats.insert(s.to_string());
                        }
                    }
                    _ => collect(v, strings, numbers, lens, formats, depth + 1),
                }
            }
        }
        Value::Array(a) => {
            for x in a {
                collect(x, strings, numbers, lens, formats, depth + 1);
            }
        }
        _ => {}
    }
}

fn collect_values(v: &Value, strings: &mut BTreeSet<String>, numbers: &mut BTreeSet<String>) {
    match v {
        Value::String(s) => {
            strings.insert(s.clone());
        }
        Value::Number(n) => {
            numbers.insert(n.to_string());
        }
        Value::Array(a) => {
            for x in a {
                collect_values(x, strings, numbers);
            }
        }
        Value::Object(o) => {
            for (k, x) in o {
                strings.insert(k.clone());
                collect_values(x, strings, numbers);
            }
        }
        _ => {}
    }
}

pub struct Pools {
    /// complete JSON string literals (with quotes)
    pub strings: Vec<Vec<u8>>,
    pub numbers: Vec<Vec<u8>>,
}

fn format_pool(f: &str, out: &mut BTreeSet<String>) {
    match f {
        "date" => {
            for y in ["0000", "0001", "1900", "2000", "2023", "2024", "9999"] {
                for m in ["00", "01", "02", "04", "12", "13"] {
                    for d in ["00", "01", "28", "29", "30", "31", "32"] {
                        out.insert(format!("{y}-{m}-{d}"));
                    }
                }
            }
            out.insert("2024-1-01".into());
            out.insert("24-01-01".into());
        }
        "time" => {
            for h in ["00", "23", "24"] {
                for mi in ["00", "59", "60"] {
                    for s in ["00", "59", "60", "61"] {
                        for z in ["Z", "z", "+00:00", "-23:59", "+24:00", "+01:60", ""] {
                            out.insert(format!("{h}:{mi}:{s}{z}"));
                        }
                    }
                }
            }
            out.insert("12:00:00.5Z".into());
            out.insert("12:00:00.Z".into());
        }
        "date-time" => {
            for d in ["2023-02-28", "2023-02-29", "2024-02-29", "1900-02-29", "2000-02-29", "2024-04-31", "2024-13-01", "2024-12-31"] {
                for sep in ["T", "t", " "] {
                    for t in ["00:00:00Z", "23:59:60z", "24:00:00Z", "12:30:15.25+05:30", "12:30:15"] {
                        out.insert(format!("{d}{sep}{t}"));
                    }
                }
            }
        }
        "duration" => {
            for s in ["P1D", "P1Y2M3D", "PT1H", "PT1M30S", "P1W", "P", "PT", "P1M1Y", "P1DT", "P1DT1H", "P1Y1W", "P1.5D", "PT1S1M", "P2M", "P1Y3D", "1D"] {
                out.insert(s.into());
            }
        }
        "ipv4" => {
            for s in ["0.0.0.0", "255.255.255.255", "256.1.1.1", "1.1.1", "01.1.1.1", "1.1.1.1.1", "1.1.1.999", "25.5.5.5", "1.1.1.1."] {
                out.insert(s.into());
            }
        }
        "ipv6" => {
            for s in ["::", "::1", "1::", "1:2:3:4:5:6:7:8", "1:2:3:4:5:6:7::", "1::2:3:4:5:6:7", "1:2:3:4:5:6:7:8:9", ":::", "1::2::3", "12345::", "g::", "::ffff", "1:2:3:4:5:6:7", "::2:3:4:5:6:7:8"] {
                out.insert(s.into());
            }
        }
        "uuid" => {
            for s in ["123e4567-e89b-12d3-a456-426614174000", "123E4567-E89B-12D3-A456-426614174000", "123e4567e89b12d3a456426614174000", "123e4567-e89b-12d3-a456-42661417400", "123e4567-e89b-12d3-a456-42661417400g"] {
                out.insert(s.into());
            }
        }
        "hostname" => {
            for s in ["a", "a.b", "a-b.c", "-a", "a-", "a..b", "a.b.", "A1.example", "a_b", "xn--a", "a.-b"] {
                out.insert(s.into());
            }
            out.insert("a".repeat(63));
            out.insert("a".repeat(64));
        }
        "email" => {
            for s in ["a@b", "a.b@c.d", "a@b-c.d", "a@-b", ".a@b", "a.@b", "a..b@c", "a@b.", "a@[1.2.3.4]", "a@[256.1.1.1]", "a b@c", "a@b@c", "@b", "a@", "a!#@b"] {
                out.insert(s.into());
            }
        }
        _ => {}
    }
}

pub fn pools_for(schema: &Value) -> Pools {
    let mut strings = BTreeSet::new();
    let mut numbers = BTreeSet::new();
    let mut lens = BTreeSet::new();
    let mut formats = BTreeSet::new();
    collect(schema, &mut strings, &mut numbers, &mut lens, &mut formats, 0);
    let mut lits: BTreeSet<Vec<u8>> = BTreeSet::new();
    // declared names and enum strings with variants
    for s in strings.iter() {
        lits.insert(json_str_lit(s));
        let chars: Vec<char> = s.chars().collect();
        if let Some(c0) = chars.first() {
            let rest: String = chars[1..].iter().collect();
            let rest_lit = json_str_lit(&rest);
            let inner = &rest_lit[1..rest_lit.len() - 1];
            let cp = *c0 as u32;
            if cp < 0x10000 {
                for hex in [format!("{:04x}", cp), format!("{:04X}", cp)] {
                    let mut v = b"\"\\u".to_vec();
                    v.extend_from_slice(hex.as_bytes());
                    v.extend_from_slice(inner);
                    v.push(b'"');
                    lits.insert(v);
                }
            }
            // strict prefix and one-character extension
            let pre: String = chars[..chars.len() - 1].iter().collect();
            lits.insert(json_str_lit(&pre));
            lits.insert(json_str_lit(&format!("{s}a")));
            lits.insert(json_str_lit(&format!("{s} ")));
        }
    }
    // lengths
    let maxlen = lens.iter().max().copied().unwrap_or(2).min(6);
    for l in 0..=(maxlen + 1) {
        lits.insert(json_str_lit(&"a".repeat(l)));
        lits.insert(json_str_lit(&"é".repeat(l)));
        if l >= 1 {
            let mut v = b"\"".to_vec();
            for _ in 0..l {
                v.extend_from_slice(b"\\n");
            }
            v.push(b'"');
            lits.insert(v);
            let mut v = b"\"".to_vec();
            v.extend_from_slice("😀".repeat(l).as_bytes());
            v.push(b'"');
            lits.insert(v);
        }
    }
    for s in ["b", "ab", "abx", "acx", "x", "ba", "xa", "bb", "é", "bé", "a\"", "\\", "a\nb", "\u{1}", "\u{7f}", "zz", "0", "true"] {
        lits.insert(json_str_lit(s));
    }
    // odd escapes written by hand
    for raw in [&b"\"\\/\""[..], b"\"\\u0041\"", b"\"\\u00e9\"", b"\"\\ud83d\\ude00\"", b"\"\\ud83d\"", b"\"\\x41\"", b"\"\\a\"", b"\"\t\""] {
        lits.insert(raw.to_vec());
    }
    let mut fstrings = BTreeSet::new();
    for f in formats.iter() {
        format_pool(f, &mut fstrings);
    }
    for s in fstrings {
        lits.insert(json_str_lit(&s));
    }
    // numbers
    let mut nums: BTreeSet<String> = BTreeSet::new();
    for s in ["0", "-1", "1", "2", "3", "5", "7", "12", "100", "1.5", "2.50", "0.5", "-0.5", "1e2", "1E-1", "-0", "01", "1.0"] {
        nums.insert(s.to_string());
    }
    for b in numbers.iter() {
        nums.insert(b.clone());
        if let Some(d) = crate::refs::decimal::Dec::parse(b) {
            let base = d.to_f64();
            for delta in [-1.0, 1.0, -0.5, 0.5] {
                let v = base + delta;
                if v.fract() == 0.0 {
                    nums.insert(format!("{}", v as i64));
                } else {
                    nums.insert(format!("{}", v));
                }
            }
            if d.scale == 0 {
                nums.insert(format!("{}.0", b));
                nums.insert(format!("{}.5", b));
            } else {
                nums.insert(format!("{}0", b));
            }
        }
    }
    Pools { strings: lits.into_iter().collect(), numbers: nums.into_iter().map(|s| s.into_bytes()).collect() }
}

pub struct EnumOut {
    pub nodes: u64,
    pub outputs: u64,
    pub moves_fed: u64,
    pub cap_hit: bool,
    pub violations: Vec<(String, String, Vec<u8>)>, // (class, reason, output)
    pub outcomes: Vec<u64>,
    pub completed_depth: usize,
}

struct Enumerator<'a> {
    f: &'a Factory,
    schema: &'a Value,
    pools: &'a Pools,
    out: EnumOut,
    node_cap: u64,
    byte_tok: Vec<Option<u32>>,
    seen_outputs: BTreeSet<Vec<u8>>,
}

impl<'a> Enumerator<'a> {
    /// feed bytes through mask + commit; None when some byte is not allowed
    fn feed(&mut self, m: &Matcher, bytes: &[u8]) -> Option<Matcher> {
        let mut c = m.clone();
        self.out.moves_fed += 1;
        for b in bytes {
            let t = self.byte_tok[*b as usize]?;
            if c.is_stopped() {
                return None;
            }
            let mask = c.compute_mask().ok()?;
            if !mask.is_allowed(t) {
                return None;
            }
            c.consume_token(t).ok()?;
        }
        Some(c)
    }

    fn judge(&mut self, text: &[u8]) {
        if !self.seen_outputs.insert(text.to_vec()) {
            return;
        }
        self.out.outputs += 1;
        if let Err(reason) = check_output(self.schema, text) {
            let class = classify(self.schema, text, &reason);
            if self.out.violations.len() < 50 {
                self.out.violations.push((class, reason, text.to_vec()));
            }
        }
        self.out.outcomes.push(fnv(text));
    }

    fn dfs(&mut self, m: &Matcher, text: &mut Vec<u8>, moves_left: usize, after_number: bool, ws_left: usize) {
        if self.out.nodes >= self.node_cap {
            self.out.cap_hit = true;
            return;
        }
        self.out.nodes += 1;
        crate::watchdog::beat();
        let mut mm = m.clone();
        let stopped = mm.is_stopped();
        if (stopped && mm.stop_reason().is_ok()) || (!stopped && mm.is_accepting().unwrap_or(false)) {
            self.judge(text);
        }
        if stopped || moves_left == 0 {
            return;
        }
        let Ok(mask) = mm.compute_mask() else { return };
        let allowed = |b: u8| self.byte_tok[b as usize].map_or(false, |t| mask.is_allowed(t));
        let mut moves: Vec<(Vec<u8>, bool)> = vec![];
        for b in [b'{', b'}', b'[', b']', b',', b':'] {
            if allowed(b) {
                moves.push((vec![b], false));
            }
        }
        if !after_number {
            for kw in [&b"true"[..], b"false", b"null"] {
                if allowed(kw[0]) {
                    moves.push((kw.to_vec(), false));
                }
            }
            if allowed(b'"') {
                for s in self.pools.strings.iter() {
                    moves.push((s.clone(), false));
                }
            }
            if allowed(b'-') || (b'0'..=b'9').any(|d| allowed(d)) {
                for n in self.pools.numbers.iter() {
                    moves.push((n.clone(), true));
                }
            }
        }
        if ws_left > 0 && allowed(b' ') && !text.ends_with(b" ") {
            moves.push((b" ".to_vec(), after_number));
        }
        for (bytes, is_num) in moves {
            if let Some(c) = self.feed(m, &bytes) {
                let l = text.len();
                let ws = if bytes == b" " { ws_left - 1 } else { ws_left };
                text.extend_from_slice(&bytes);
                self.dfs(&c, text, moves_left - 1, is_num, ws);
                text.truncate(l);
                if self.out.cap_hit {
                    return;
                }
            }
        }
    }
}

/// assign a class so that recorded findings can be matched specifically
fn classify(schema: &Value, text: &[u8], reason: &str) -> String {
    let t = String::from_utf8_lossy(text).to_string();
    if reason.starts_with("not well-formed") {
        return "json-not-well-formed".into();
    }
    if reason.contains("declared property repeated") {
        if t.contains("\\u") {
            return "json-declared-key-repeated-via-unicode-escape".into();
        }
        return "json-declared-key-repeated".into();
    }
    let fmt = find_format(schema);
    if let Some(f) = fmt {
        if f == "date" || f == "date-time" {
            // February 29 in a non-leap year?
            if let Some(pos) = t.find("-02-29") {
                if pos >= 4 {
                    if let Ok(y) = t[pos - 4..pos].parse::<u32>() {
                        if !is_leap(y) {
                            return "json-format-date-feb29-nonleap".into();
                        }
                    }
                }
            }
        }
        return format!("json-format-{}-invalid", f);
    }
    if t.contains("\\u") && schema.to_string().contains("additionalProperties") {
        // an escaped spelling of a declared key validated against additionalProperties?
        return "json-escaped-key-bypasses-declared-property".into();
    }
    "json-output-does-not-validate".into()
}

fn find_format(schema: &Value) -> Option<String> {
    match schema {
        Value::Object(o) => {
            if let Some(f) = o.get("format").and_then(|x| x.as_str()) {
                return Some(f.to_string());
            }
            o.values().find_map(find_format)
        }
        Value::Array(a) => a.iter().find_map(find_format),
        _ => None,
    }
}

pub fn enumerate_outputs(f: &Factory, schema: &Value, root: &Matcher, max_moves: usize, node_cap: u64) -> EnumOut {
    let trie = f.env.tok_trie();
    let byte_tok: Vec<Option<u32>> = (0..=255u8).map(|b| if b == 0xFF { None } else { trie.token_id(&[b]) }).collect();
    let pools = pools_for(schema);
    let mut best: Option<EnumOut> = None;
    // iterative deepening on the number of lexeme moves
    let mut d = 2;
    let mut completed = 0;
    while d <= max_moves {
        let mut e = Enumerator {
            f,
            schema,
            pools: &pools,
            out: EnumOut { nodes: 0, outputs: 0, moves_fed: 0, cap_hit: false, violations: vec![], outcomes: vec![], completed_depth: 0 },
            node_cap,
            byte_tok: byte_tok.clone(),
            seen_outputs: BTreeSet::new(),
        };
        let _ = e.f;
        let mut text = vec![];
        e.dfs(root, &mut text, d, false, 1);
        let capped = e.out.cap_hit;
        if !capped {
            completed = d;
        }
        let has_v = !e.out.violations.is_empty();
        let prev_nodes = best.as_ref().map(|b| b.nodes).unwrap_or(0);
        let same = !capped && e.out.nodes == prev_nodes; // nothing new at this depth: space exhausted
        best = Some(e.out);
        if capped || has_v || same {
            break;
        }
        d += 2;
    }
    let mut b = best.unwrap();
    b.completed_depth = completed;
    b
}

/// character-level complement: every output over a tiny alphabet, strings with bodies of at most
/// `max_body` characters, numbers of at most 3 characters; catches what no pool anticipates
struct CharEnum<'a> {
    schema: &'a Value,
    byte_tok: Vec<Option<u32>>,
    nodes: u64,
    outputs: u64,
    fed: u64,
    cap: u64,
    cap_hit: bool,
    max_body: usize,
    max_len: usize,
    violations: Vec<(String, String, Vec<u8>)>,
}

impl<'a> CharEnum<'a> {
    fn feed(&mut self, m: &Matcher, bytes: &[u8]) -> Option<Matcher> {
        let mut c = m.clone();
        self.fed += 1;
        for b in bytes {
            let t = self.byte_tok[*b as usize]?;
            if c.is_stopped() {
                return None;
            }
            let mask = c.compute_mask().ok()?;
            if !mask.is_allowed(t) {
                return None;
            }
            c.consume_token(t).ok()?;
        }
        Some(c)
    }

    /// state: in_str = inside a string literal, body = characters so far in it, num = length of
    /// the number being written
    fn dfs(&mut self, m: &Matcher, text: &mut Vec<u8>, in_str: bool, body: usize, num: usize) {
        if self.nodes >= self.cap {
            self.cap_hit = true;
            return;
        }
        self.nodes += 1;
        crate::watchdog::beat();
        let mut mm = m.clone();
        let stopped = mm.is_stopped();
        if !in_str && ((stopped && mm.stop_reason().is_ok()) || (!stopped && mm.is_accepting().unwrap_or(false))) {
            self.outputs += 1;
            if let Err(reason) = check_output(self.schema, text) {
                let class = classify(self.schema, text, &reason);
                if self.violations.len() < 20 {
                    self.violations.push((class, reason, text.clone()));
                }
            }
        }
        if stopped || text.len() >= self.max_len {
            return;
        }
        let mut moves: Vec<(&[u8], bool, usize, usize)> = vec![]; // bytes, in_str after, body after, num after
        if in_str {
            moves.push((b"\"", false, 0, 0));
            if body < self.max_body {
                for u in [&b"a"[..], b"b", "é".as_bytes(), b"\\n", b"\\\"", b"\\u0061", b"\\u0001", b"\\\\", b"\\/", b"\x7f", b"1", b"-", b":", b" "] {
                    moves.push((u, true, body + 1, 0));
                }
            }
        } else {
            for b in [&b"{"[..], b"}", b"[", b"]", b",", b":", b"true", b"false", b"null"] {
                moves.push((b, false, 0, 0));
            }
            moves.push((b"\"", true, 0, 0));
            if num < 3 {
                for d in [&b"0"[..], b"1", b"5", b"-", b".", b"e"] {
                    moves.push((d, false, 0, num + 1));
                }
            }
        }
        for (bytes, is, bd, nm) in moves {
            if let Some(c) = self.feed(m, bytes) {
                let l = text.len();
                text.extend_from_slice(bytes);
                self.dfs(&c, text, is, bd, nm);
                text.truncate(l);
                if self.cap_hit {
                    return;
                }
            }
        }
    }
}

pub fn enumerate_chars(f: &Factory, schema: &Value, root: &Matcher, max_body: usize, max_len: usize, cap: u64) -> (u64, u64, u64, bool, Vec<(String, String, Vec<u8>)>) {
    let trie = f.env.tok_trie();
    let byte_tok: Vec<Option<u32>> = (0..=255u8).map(|b| if b == 0xFF { None } else { trie.token_id(&[b]) }).collect();
    let mut e = CharEnum { schema, byte_tok, nodes: 0, outputs: 0, fed: 0, cap, cap_hit: false, max_body, max_len, violations: vec![] };
    let mut text = vec![];
    e.dfs(root, &mut text, false, 0, 0);
    (e.nodes, e.outputs, e.fed, e.cap_hit, e.violations)
}

fn schemas(ctx: &Ctx) -> Vec<Value> {
    let mut v = jsongen::all_schemas_x(ctx.quick());
    for it in corpus::json_items() {
        if let GrammarSpec::Json(s) = it.g {
            v.push(s);
        }
    }
    // shapes aimed at key handling and escapes
    v.push(json!({"type": "object", "properties": {"a": {"const": 1}}, "additionalProperties": {"const": 2}}));
    v.push(json!({"type": "object", "properties": {"a": {"const": 1}}, "additionalProperties": {"const": 2}, "x-guidance": {"json_allow_general_unicode_escapes": true}}));
    v.push(json!({"type": "object", "properties": {"a": {"type": "null"}}, "required": ["a"], "additionalProperties": {"type": "boolean"}, "maxProperties": 2}));
    v.push(json!({"type": "object", "patternProperties": {"^a": {"const": 1}}, "additionalProperties": {"const": 2}}));
    v.push(json!({"enum": ["a", "b"], "x-guidance": {"json_allow_general_unicode_escapes": true}}));
    v.push(json!({"type": "string", "maxLength": 1, "x-guidance": {"json_allow_general_unicode_escapes": true}}));
    v.push(json!({"type": "string", "maxLength": 2, "x-guidance": {"json_allowed_escapes": "n"}}));
    v.push(json!({"type": "array", "items": {"type": "integer", "minimum": 1, "maximum": 3}, "minItems": 1, "maxItems": 2, "x-guidance": {"whitespace_flexible": false}}));
    v
}

/// Long outputs (beyond the lexeme bound of the enumeration): size-bounded open objects and arrays with
/// bounds 10..26. Every output "k members" for k = 0..max+5 is fed byte by byte; an output the engine
/// accepts as complete must validate.
fn long_outputs(ctx: &Ctx) {
    let vocab = vocab::b256();
    let mut cases: Vec<(Value, bool)> = vec![];
    for n in [10usize, 11, 12, 13, 14, 15, 16, 17, 19, 20, 23, 26] {
        for m in [0usize, 1, n - 1] {
            cases.push((json!({"type": "object", "additionalProperties": {"type": "null"}, "minProperties": m, "maxProperties": n, "x-guidance": {"whitespace_flexible": false}}), true));
            cases.push((json!({"type": "array", "items": {"type": "null"}, "minItems": m, "maxItems": n, "x-guidance": {"whitespace_flexible": false}}), false));
        }
        cases.push((json!({"type": "object", "properties": {"k0": {"type": "null"}}, "required": ["k0"], "patternProperties": {"^k": {"type": "null"}}, "additionalProperties": false, "maxProperties": n, "x-guidance": {"whitespace_flexible": false}}), true));
    }
    cases.par_iter().for_each(|(schema, is_obj)| {
        let f = Factory::new(&vocab, &Slices::Default).unwrap();
        let Ok(root) = f.try_matcher(&GrammarSpec::Json(schema.clone())) else {
            ctx.count("long_output_schemas_refused", 1);
            return;
        };
        let n = schema.get("maxProperties").or(schema.get("maxItems")).and_then(|x| x.as_u64()).unwrap() as usize;
        let val = Validator::new(schema);
        for k in 0..=n + 5 {
            let mut text: Vec<u8> = vec![if *is_obj { b'{' } else { b'[' }];
            for i in 0..k {
                if i > 0 {
                    text.push(b',');
                }
                if *is_obj {
                    text.extend_from_slice(format!("\"k{i}\":null").as_bytes());
                } else {
                    text.extend_from_slice(b"null");
                }
            }
            text.push(if *is_obj { b'}' } else { b']' });
            let mut m = root.clone();
            let trie = f.env.tok_trie();
            let mut ok = true;
            for b in text.iter() {
                crate::watchdog::beat();
                if m.consume_token(trie.token_id(&[*b]).unwrap()).is_err() {
                    ok = false;
                    break;
                }
            }
            ctx.transitions.fetch_add(text.len() as u64, Ordering::Relaxed);
            let complete = ok && (if m.is_stopped() { m.stop_reason().is_ok() } else { m.is_accepting().unwrap_or(false) });
            ctx.count("long_outputs_fed", 1);
            if complete {
                ctx.validated.fetch_add(1, Ordering::Relaxed);
                let inst = parse_json(&text).unwrap();
                if !val.valid(schema, &inst) {
                    ctx.violation(Violation {
                        check: "long_output_invalid".into(),
                        class: "json-size-bound-exceeded".into(),
                        signature: format!("long|{}|members={}", schema, k),
                        detail: json!({"kind": "json_output", "schema": schema, "output": show(&text), "members": k, "reason": "accepted as complete but does not validate"}),
                    });
                    return;
                }
            }
        }
    });
}

pub fn run(ctx: &Ctx) -> Coverage {
    long_outputs(ctx);
    let ss = schemas(ctx);
    let vocab = vocab::b256();
    let max_moves = ctx.tier.pick(10, 18);
    let node_cap = ctx.tier.pick(40_000u64, 1_500_000);
    ctx.note(format!("{} schemas", ss.len()));
    ss.par_iter().for_each(|schema| {
        if ctx.over_budget() {
            ctx.count("schemas_skipped_budget", 1);
            return;
        }
        let f = Factory::new(&vocab, &Slices::Default).unwrap();
        let g = GrammarSpec::Json(schema.clone());
        let root = match f.try_matcher(&g) {
            Ok(r) => r,
            Err(e) => {
                ctx.count("schemas_refused", 1);
                if e.starts_with("panic") {
                    ctx.violation(Violation { check: "compile_panic".into(), class: "json-compile-panic".into(), signature: format!("panic|{}", schema), detail: json!({"kind": "json_output", "schema": schema, "error": e}) });
                }
                return;
            }
        };
        let out = enumerate_outputs(&f, schema, &root, max_moves, node_cap);
        ctx.states.fetch_add(out.nodes, Ordering::Relaxed);
        ctx.transitions.fetch_add(out.moves_fed, Ordering::Relaxed);
        ctx.validated.fetch_add(out.outputs, Ordering::Relaxed);
        ctx.count("outputs_validated", out.outputs);
        ctx.outcomes_extend(out.outcomes);
        if out.cap_hit {
            ctx.count("schemas_node_cap_hit", 1);
        } else {
            ctx.count("schemas_fully_enumerated_to_bound", 1);
        }
        ctx.count(&format!("schemas_completed_moves_{:02}", out.completed_depth), 1);
        for (class, reason, text) in out.violations {
            ctx.violation(Violation {
                check: "output_invalid".into(),
                class: class.clone(),
                signature: format!("{}|{}|{}", class, schema, show(&text)),
                detail: json!({"kind": "json_output", "schema": schema, "output": show(&text), "output_hex": hex(&text), "reason": reason}),
            });
        }
        if out.outputs > 3 {
            ctx.sample(json!({"schema": schema, "outputs": out.outputs, "nodes": out.nodes}));
        }
        // character-level complement (compact JSON only, to keep the alphabet tiny)
        let mut compact = schema.clone();
        if compact.is_object() && compact.get("x-guidance").is_none() {
            compact["x-guidance"] = json!({"whitespace_flexible": false});
            if let Ok(root2) = f.try_matcher(&GrammarSpec::Json(compact.clone())) {
                let (nodes, outputs, fed, capped, viols) = enumerate_chars(&f, &compact, &root2, ctx.tier.pick(2, 3), ctx.tier.pick(14, 20), ctx.tier.pick(15_000, 400_000));
                ctx.states.fetch_add(nodes, Ordering::Relaxed);
                ctx.transitions.fetch_add(fed, Ordering::Relaxed);
                ctx.validated.fetch_add(outputs, Ordering::Relaxed);
                ctx.count("char_level_outputs_validated", outputs);
                ctx.count(if capped { "char_level_schemas_capped" } else { "char_level_schemas_complete" }, 1);
                for (class, reason, text) in viols {
                    ctx.violation(Violation {
                        check: "output_invalid_char_level".into(),
                        class: class.clone(),
                        signature: format!("{}|{}|{}", class, compact, show(&text)),
                        detail: json!({"kind": "json_output", "schema": compact, "output": show(&text), "output_hex": hex(&text), "reason": reason}),
                    });
                }
            }
        }
    });
    if ctx.get_count("outputs_validated") < 1000 {
        ctx.machinery_error("vacuous run: fewer than 1000 outputs enumerated");
    }
    Coverage::StateGraph {
        rule: format!("for each of {} schemas (keyword templates + corpus): depth-first enumeration through the masks of every output with <= {max_moves} lexeme moves (iterative deepening; structural bytes, true/false/null, every string of a schema-derived pool incl. \\u-escaped spellings of declared names, prefixes, extensions, every length 0..maxLength+1, escapes, format boundary products; every number of a pool around each bound), <= {node_cap} nodes per schema; every complete output is parsed by a strict duplicate-preserving JSON parser and validated against the schema (formats asserted); plus a character-level complement per schema (compact JSON; every output over the alphabet a b é \\n \\\" \\u0061 \\u0001 \\\\ \\/ DEL 1 - : space inside strings with bodies <= {} characters, numbers <= 3 characters over 0 1 5 - . e, structural bytes and keywords, <= {} bytes, node cap {} — schemas that hit the cap are counted in char_level_schemas_capped and are covered only below it); states = DFS nodes, transitions = lexeme moves fed, traces = complete outputs validated; plus long outputs: open objects / arrays with size bounds 10..26, every member count 0..max+5 fed byte by byte, accepted-as-complete must validate", ss.len(), ctx.tier.pick(2, 3), ctx.tier.pick(14, 20), ctx.tier.pick(15_000, 400_000)),
    }
}
