//! Corpus of grammars / schemas / regexes (ported from the repo's network-dependent tests, docs
//! and sample data, plus hand-written shapes that stress lexeme boundaries).
use crate::engine::GrammarSpec;
use serde_json::json;

#[derive(Clone, Debug)]
pub struct Item {
    pub name: String,
    pub g: GrammarSpec,
    /// example texts; used to derive multi-byte tokens that straddle lexemes
    pub sentences: Vec<Vec<u8>>,
    /// supports rollback (no stop=/max_tokens=)
    pub core: bool,
}

fn lark(name: &str, src: &str, sentences: &[&str]) -> Item {
    Item {
        name: name.to_string(),
        g: GrammarSpec::Lark(src.to_string()),
        sentences: sentences.iter().map(|s| s.as_bytes().to_vec()).collect(),
        core: true,
    }
}

fn js(name: &str, v: serde_json::Value, sentences: &[&str]) -> Item {
    Item {
        name: name.to_string(),
        g: GrammarSpec::Json(v),
        sentences: sentences.iter().map(|s| s.as_bytes().to_vec()).collect(),
        core: true,
    }
}

fn rx(name: &str, r: &str, sentences: &[&str]) -> Item {
    Item {
        name: name.to_string(),
        g: GrammarSpec::Regex(r.to_string()),
        sentences: sentences.iter().map(|s| s.as_bytes().to_vec()).collect(),
        core: true,
    }
}

pub fn lark_items() -> Vec<Item> {
    vec![
        lark("ab-seq", "start: \"a\" \"b\" \"c\"", &["abc"]),
        lark("alt-x", "start: \"a\" X \"c\" | \"b\" X \"d\"\nX: /x+/", &["axxc", "bxd"]),
        lark("digits", "start: /[0-9]+/ \"+\" /[0-9]+/", &["12+345"]),
        lark("kw-ident", "start: \"if\" ID | ID\nID: /[a-z]+/\n%ignore / +/", &["if x", "ifx", "foo"]),
        lark("nested", "start: expr\nexpr: \"(\" expr \")\" | \"x\"", &["((x))"]),
        lark("list", "start: item (\",\" item)*\nitem: /[ab]+/", &["a,b,ab"]),
        lark("opt", "start: \"a\"? \"b\"* \"c\"+", &["abbcc", "c"]),
        lark("rep", "start: \"ab\"{2,3} \"c\"", &["ababc", "abababc"]),
        lark("lrec", "start: start \"a\" | \"b\"", &["baaa"]),
        lark("rrec", "start: \"a\" start | \"b\"", &["aaab"]),
        lark("ambig", "start: e\ne: e \"+\" e | \"n\"", &["n+n+n"]),
        lark("nullable", "start: a b \"c\"\na: \"a\" |\nb: a a | \"b\"", &["aac", "bc", "c"]),
        lark("term-cat", "start: T \"!\"\nT: \"a\" (\"b\" | \"cd\")+ \"e\"?", &["abcd!", "abe!"]),
        lark("greedy-overlap", "start: A B\nA: /a+/\nB: /b+/", &["aabb"]),
        lark("maxmunch", "start: A B?\nA: /a+b?/\nB: \"b\"", &["aab"]),
        lark("ignore-ws", "start: \"[\" NUM (\",\" NUM)* \"]\"\nNUM: /[0-9]+/\n%ignore /[ \\n]+/", &["[1, 22,3]"]),
        lark("utf8", "start: /[é€]+/ \"😀\" /./", &["é€😀x", "€😀é"]),
        lark("case-insens", "start: /(?i)abc/ \"D\"", &["aBcD"]),
        lark("and-not", "start: T\nT: /[a-c]+/ & ~/.*bb.*/", &["abcab"]),
        lark("lazy", "start: head \"=x>\" /[0-9]+/\nhead[lazy]: /[a-z<]*/ \"<f\"", &["ab<f=x>12"]),
        lark("suffix", "start: g \"z\"\ng[suffix=\"!\"]: /[a-c]*/", &["abc!z"]),
        lark("json-inline", "start: \"r=\" j\nj: %json {\"type\":\"object\",\"properties\":{\"a\":{\"type\":\"integer\"}},\"required\":[\"a\"],\"additionalProperties\":false}", &["r={\"a\":12}"]),
        lark("json-alt", "start: TEXT | j\nTEXT: /[^{](.|\\n)*/\nj: %json {\"type\":\"object\",\"properties\":{\"n\":{\"const\":\"w\"}},\"required\":[\"n\"],\"additionalProperties\":false}", &["hi {", "{\"n\":\"w\"}"]),
        lark("two-json", "start: a | b\na: %json {\"type\":\"object\",\"properties\":{\"x\":{\"type\":\"boolean\"}},\"required\":[\"x\"],\"additionalProperties\":false}\nb: %json {\"type\":\"array\",\"items\":{\"type\":\"null\"},\"maxItems\":2}", &["{\"x\":true}", "[null,null]"]),
        lark("substr", "start: S \".\"\nS: %regex { \"substring_chunks\": [\"ab\", \"c\", \"de\"] }", &["abcde.", "cde."]),
        lark("substr-words", "start: \"<\" S \">\"\nS: %regex { \"substring_words\": \"the cat sat\" }", &["<cat sat>"]),
        lark("long-literal", "start: \"hello world\" | \"hello there\" | \"help\"", &["hello world", "hello there", "help"]),
        lark("param-uniq", "start    :  item_list::0x0\nitem_list::_ : \"a\" item_list::set_bit(0) %if bit_clear(0)\n   | \"b\" item_list::set_bit(1) %if bit_clear(1)\n   | \"c\" item_list::set_bit(2) %if bit_clear(2)\n   | \"\"", &["abc", "cab"]),
        lark("param-perm", "start    :  perm::0x0\nperm::_   :  \"a\" perm::set_bit(0) %if bit_clear(0)\n          |  \"b\" perm::set_bit(1) %if bit_clear(1)\n          |  \"c\" perm::set_bit(2) %if bit_clear(2)\n          |  \"\" %if is_ones([0:3])", &["abc", "bca"]),
        lark("param-count", "start: lst::0\nlst::_ : \"a\" lst::incr(_) %if lt(_, 3)\n  | \"b\" %if ge(_, 1)", &["aab", "aaab"]),
        lark("ignore-once", "%llguidance { \"ignore_once\": true }\n%ignore /[ \\t]{1,3}/\nstart: \"A\" \"!\"", &["A  !", "A!"]),
        lark("regex-class", "start: /[a-c][^a]?/ /\\d{1,2}/", &["ab12", "a1"]),
        lark("empty-alt", "start: (\"a\" | ) (\"b\" | ) \"c\"", &["abc", "c"]),
        lark("group-rep", "start: (\"a\" \"b\"?){1,3} \"c\"", &["abac", "aaac"]),
        lark("toolcall", "start: ( f_foo | f_bar )* f_end\nf_end: TEXT\nTEXT: /(.|\\n)*/\nf_foo_hd[lazy]: TEXT \"<fn\"\nf_foo: f_foo_hd \"=foo>\" /[a-c]+/ \"</fn>\"\nf_bar_hd[lazy]: TEXT \"<fn\"\nf_bar: f_bar_hd \"=bar>\" /[0-9]+/ \"</fn>\"", &["ab<fn=foo>abc</fn>x", "x<fn=bar>12</fn>"]),
        lark("lazy-greedy", "start: hd \"=x\" | TEXT\nTEXT: /[a-z<]*/\nhd[lazy]: TEXT \"<f\"", &["ab<f=x", "ab<fx"]),
        lark("brave", "start: normal | brave\nnormal: /[a-z ]*/\nbrave: \"call(q=\" JSON_STRING \")\"\nJSON_CHAR: /(\\\\([\\\"\\\\\\/bfnrt]|u[a-fA-F0-9]{4})|[^\\\"\\\\\\x00-\\x1F\\x7F])/\nJSON_STRING: \"\\\"\" JSON_CHAR* \"\\\"\"", &["call(q=\"ab\\n\")", "hello a"]),
        lark("think", "start: /(.|\\n)*/ \"</t>\" addr\naddr: %json {\"type\":\"object\",\"properties\":{\"zip\":{\"type\":\"number\"}},\"required\":[\"zip\"],\"additionalProperties\":false}", &["hm\n</t>{\"zip\":12}"]),
        lark("and-alt", "start: W | N\nW: /[a-z]+/ & ~/.*bb.*/\nN: /[0-9]+/ & /[0-9]*[05]/", &["abab", "125"]),
        lark("and-seq", "start: \"<\" (W | N) \">\"\nW: /[ab]{1,3}/ & /a.*/\nN: /[0-9]{2}/ & ~/1./", &["<ab>", "<25>"]),
        // lexemes that subsume the JSON string-character slice but not the whitespace slice, with blank tokens allowed
        lark("no-cr", "start: /[^\\r]*/", &["a b\n\tc", "x\n\n y", "\t\n"]),
        lark("comment", "start: (C \"\\n\")+\nC: /#[^\\n]*/", &["#a b\n#\tc\n"]),
        lark("text-tab", "start: T (WS T)*\nT: /[^\\t]+/\nWS: /\\t+/", &["a b\t\tc\nd", "\n \t\n"]),
        lark("long-shared-prefix", "start: a | b c\na: \"the quick brown fox jumps over the lazy dog\"\nb: \"the quick brown fox jumps over the lazy cat\"\nc: \"the quick brown fox jumps over the lazy cow\"", &["the quick brown fox jumps over the lazy dog", "the quick brown fox jumps over the lazy catthe quick brown fox jumps over the lazy cow"]),
        lark("mutual", "start: a\na: \"x\" b | \"y\"\nb: \"z\" a | \"w\"", &["xzxzy", "xw"]),
    ]
}

pub fn json_items() -> Vec<Item> {
    vec![
        js("obj-fixed", json!({"type":"object","properties":{"name":{"type":"string"},"age":{"type":"integer"}},"required":["name","age"],"additionalProperties":false}), &["{\"name\":\"ab\",\"age\":12}"]),
        js("obj-opt", json!({"type":"object","properties":{"a":{"type":"boolean"},"b":{"type":"null"},"c":{"type":"integer"}},"required":["b"],"additionalProperties":false}), &["{\"a\":true,\"b\":null}", "{\"b\":null,\"c\":3}"]),
        js("enum-prefix", json!({"enum":["hello","help","helium",12,true]}), &["\"hello\"", "\"help\"", "\"helium\"", "12", "true"]),
        js("const-obj", json!({"const":{"k":[1,"x"]}}), &["{\"k\":[1,\"x\"]}"]),
        js("str-len", json!({"type":"string","minLength":1,"maxLength":3}), &["\"ab\"", "\"\\n\""]),
        js("str-pattern", json!({"type":"string","pattern":"^[a-c]{2}x$"}), &["\"abx\""]),
        js("arr-int", json!({"type":"array","items":{"type":"integer","minimum":0,"maximum":20},"minItems":1,"maxItems":3}), &["[1,20,3]"]),
        js("prefix-items", json!({"type":"array","prefixItems":[{"type":"boolean"},{"type":"null"}],"items":{"type":"integer"},"maxItems":3}), &["[true,null,5]"]),
        js("num-range", json!({"type":"number","minimum":-1.5,"maximum":2}), &["-1.5", "1.25", "2"]),
        js("int-mult", json!({"type":"integer","minimum":0,"maximum":100,"multipleOf":7}), &["7", "49", "98"]),
        js("anyof", json!({"anyOf":[{"type":"string","maxLength":2},{"type":"integer"},{"type":"array","items":{"type":"boolean"},"maxItems":1}]}), &["\"a\"", "-12", "[false]"]),
        js("addl-props", json!({"type":"object","properties":{"a":{"const":1}},"additionalProperties":{"type":"boolean"}}), &["{\"a\":1,\"b\":true}"]),
        js("rec-ref", json!({"$defs":{"n":{"type":"object","properties":{"v":{"type":"integer"},"next":{"$ref":"#/$defs/n"}},"required":["v"],"additionalProperties":false}},"$ref":"#/$defs/n"}), &["{\"v\":1,\"next\":{\"v\":2}}"]),
        js("date", json!({"type":"string","format":"date"}), &["\"2024-02-29\""]),
        js("any-json", json!({}), &["{\"a\":[1,2.5e3,\"x\\n\",null]}"]),
        js("ws-flex", json!({"type":"object","properties":{"a":{"type":"integer"}},"required":["a"],"additionalProperties":false,"x-guidance":{"whitespace_flexible":true}}), &["{ \"a\" : 1 }"]),
        js("allof", json!({"allOf":[{"type":"integer","minimum":3},{"maximum":12,"multipleOf":3}]}), &["3", "12"]),
        js("oneof-disjoint", json!({"oneOf":[{"type":"integer"},{"type":"string","maxLength":1}]}), &["5", "\"x\""]),
        js("min-props", json!({"type":"object","additionalProperties":{"type":"integer"},"minProperties":1,"maxProperties":2}), &["{\"a\":1,\"b\":2}"]),
        js("pattern-props", json!({"type":"object","patternProperties":{"^a":{"type":"integer"}},"additionalProperties":false}), &["{\"ab\":1}"]),
        js("uuid", json!({"type":"string","format":"uuid"}), &["\"123e4567-e89b-12d3-a456-426614174000\""]),
        js("nested-arr", json!({"type":"array","items":{"type":"array","items":{"enum":["a","b"]},"maxItems":2},"maxItems":2}), &["[[\"a\"],[\"b\",\"a\"]]"]),
        js("str-unicode", json!({"type":"string","maxLength":2}), &["\"é😀\"", "\"\\u0001\""]),
    ]
}

pub fn regex_items() -> Vec<Item> {
    vec![
        rx("rx-alt", "ab|ac|b+", &["ab", "ac", "bbb"]),
        rx("rx-class", "[a-c]{2,4}x?", &["abcax"]),
        rx("rx-dot", "a.c", &["abc", "aéc"]),
        rx("rx-neg", "[^ab]+b", &["cdéb"]),
        rx("rx-num", "-?(0|[1-9][0-9]*)(\\.[0-9]+)?", &["-12.50", "0"]),
        rx("rx-ci", "(?i)ab+c", &["aBBc"]),
        rx("rx-utf8", "(é|€|😀)+a", &["é€😀a"]),
        rx("rx-opt", "(ab)?(cd)*e", &["abcdcde", "e"]),
        rx("rx-date", "[0-9]{4}-(0[1-9]|1[0-2])-(0[1-9]|[12][0-9]|3[01])", &["2024-12-31"]),
        rx("rx-empty-ok", "a*", &["aaa", ""]),
        rx("rx-word", "\\w+\\s\\w+", &["ab cd"]),
    ]
}

pub fn all_items() -> Vec<Item> {
    let mut v = lark_items();
    v.extend(json_items());
    v.extend(regex_items());
    v
}

/// Grammars that name a special token of the multi-byte vocabularies (`<a>`, bytes FF 3C 61 3E): used by the
/// checks that have no byte-level reference (C01, C10, C11, C12); vocabularies without that token refuse them
pub fn special_items() -> Vec<Item> {
    let mut v = vec![
        lark("special-after-regex", "start: /[ab]+/ <a> \"c\"", &["ab", "abc", "c"]),
        lark("special-alt-loop", "start: (\"a\" | <a> | \"bc\")+ \"b\"", &["abcab", "ab"]),
        lark("special-optional", "start: W <a>? W\nW: /[a-c]+/", &["abc", "cab"]),
        // the end-of-sequence token named by the grammar in the middle of a sentence
        lark("special-eos-mid", "start: \"a\" <eos> \"b\" \"c\" | \"b\"", &["abc", "b"]),
        lark("special-between-json", "start: j <a> j\nj: %json {\"type\":\"array\",\"items\":{\"type\":\"null\"},\"maxItems\":1}", &["[null]", "[]"]),
    ];
    for i in v.iter_mut() {
        i.core = false;
    }
    v
}

/// Grammars with %llguidance options and nested sub-grammars: for the checks whose oracle is the engine's own
/// consistency (C01, C10, C11, C12) — no byte-level reference knows these options
pub fn option_items() -> Vec<Item> {
    let mut v = vec![
        lark("opt-no-forcing", "%llguidance { \"no_forcing\": true }\nstart: \"abc\" /[0-9]+/ \"xy\"", &["abc12xy"]),
        lark("opt-initial-skip", "%llguidance { \"allow_initial_skip\": true }\nstart: \"ab\" NUM\nNUM: /[0-9]+/\n%ignore /[ \\n]+/", &[" ab 12", "ab1"]),
        lark("opt-no-initial-skip", "start: \"ab\" NUM\nNUM: /[0-9]+/\n%ignore /[ \\n]+/", &["ab 12", "ab1"]),
        lark("opt-invalid-utf8", "%llguidance { \"allow_invalid_utf8\": true }\nstart: /[a-c]+/ \"!\"", &["abc!"]),
        lark("nested-lark", "start: \"<\" inner \">\" inner\ninner: %lark {\n  start: A B?\n  A: /a+/\n  B: \"b\"\n}", &["<aab>a", "<a>ab"]),
        lark("nested-lark-json", "start: inner \"|\" j\ninner: %lark {\n  start: \"x\" /[0-9]{1,2}/\n}\nj: %json {\"type\":\"boolean\"}", &["x12|true", "x1|false"]),
    ];
    for i in v.iter_mut() {
        i.core = false;
    }
    v
}

/// Grammars outside the core fragment (stop=/max_tokens=/temperature): used by C18/C20 only.
pub fn noncore_lark_items() -> Vec<Item> {
    let mut v = vec![
        lark("stop", "start: g \"z\"\ng[stop=\"!\"]: /[a-c]*/", &["abc!z"]),
        lark("max-tokens", "start: g \"!\"\ng[max_tokens=2]: /[a-c]*/", &["ab!"]),
        lark("stop-eos", "start: g\ng[stop=\"\"]: /[a-c]*/", &["abc"]),
    ];
    for i in v.iter_mut() {
        i.core = false;
    }
    v
}
