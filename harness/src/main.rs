mod common;
mod corpus;
mod engine;
mod explore;
mod gen;
mod guard_alloc;
mod jobs;
mod jsongen;
mod opseq;
mod props;
mod refs;
mod sched;
mod tiktoken_data;
mod vocab;
mod watchdog;

use common::{Ctx, Tier};

#[global_allocator]
static GLOBAL: guard_alloc::Guard = guard_alloc::Guard;

static LAST_PANIC: std::sync::Mutex<String> = std::sync::Mutex::new(String::new());

fn main() {
    // anyhow captures a backtrace (global lock) per error when RUST_BACKTRACE is set
    std::env::set_var("RUST_BACKTRACE", "0");
    std::env::set_var("RUST_LIB_BACKTRACE", "0");
    let args: Vec<String> = std::env::args().collect();
    if args.len() < 2 {
        eprintln!("usage: llgmc <Cxx> <quick|thorough> | llgmc replay <file>");
        std::process::exit(2);
    }
    // the subject's panics are caught where they are meaningful; keep the default hook quiet
    // (the last message is kept so that a panic escaping to main is reported, not a silent exit 101)
    std::panic::set_hook(Box::new(|info| {
        let loc = info.location().map(|l| format!("{}:{}", l.file(), l.line())).unwrap_or_default();
        let msg = info.payload().downcast_ref::<&str>().map(|s| s.to_string()).or_else(|| info.payload().downcast_ref::<String>().cloned()).unwrap_or_default();
        if let Ok(mut g) = LAST_PANIC.try_lock() {
            *g = format!("{msg} @ {loc}");
        }
    }));
    if args[1] == "c20-worker" {
        std::process::exit(props::c20::worker_main(&args[2..]));
    }
    if args[1] == "dump-validator-cases" {
        std::process::exit(props::selftest::dump_cases(&args[2]));
    }
    if args[1] == "dump-earley-cases" {
        std::process::exit(props::selftest::dump_earley_cases(&args[2]));
    }
    if args[1] == "replay" {
        std::process::exit(props::replay::replay_file(&args[2]));
    }
    let tier = match args.get(2).map(|s| s.as_str()) {
        Some("thorough") => Tier::Thorough,
        _ => Tier::Quick,
    };
    let ctx: &'static Ctx = Box::leak(Box::new(Ctx::new(&args[1], tier)));
    watchdog::start(ctx);
    let threads = std::env::var("VERIF_THREADS").ok().and_then(|s| s.parse().ok()).unwrap_or(16usize);
    rayon::ThreadPoolBuilder::new().num_threads(threads).stack_size(64 << 20).build_global().unwrap();
    if let Ok(k) = std::env::var("VERIF_SELFTEST_CRASH") {
        watchdog::selftest_crash(&k);
    }
    let cov = match std::panic::catch_unwind(std::panic::AssertUnwindSafe(|| props::dispatch(ctx))) {
        Ok(Some(c)) => c,
        Ok(None) => {
            eprintln!("unknown property {}", args[1]);
            std::process::exit(2);
        }
        Err(_) => {
            // a panic escaped a job (harness bug or an unguarded engine call): no verdict
            let m = LAST_PANIC.lock().map(|g| g.clone()).unwrap_or_default();
            println!("MACHINERY-ERROR property={} escaped panic: {}", args[1], m);
            std::process::exit(2);
        }
    };
    std::process::exit(ctx.finish(cov));
}
