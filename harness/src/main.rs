mod common;
mod corpus;
mod engine;
mod explore;
mod gen;
mod guard_alloc;
mod jobs;
mod jsongen;
mod opseq;
mod props;
mod refs;
mod sched;
mod tiktoken_data;
mod vocab;
mod watchdog;

use common::{Ctx, Tier};

#[global_allocator]
static GLOBAL: guard_alloc::Guard = guard_alloc::Guard;

fn main() {
    // anyhow captures a backtrace (global lock) per error when RUST_BACKTRACE is set
    std::env::set_var("RUST_BACKTRACE", "0");
    std::env::set_var("RUST_LIB_BACKTRACE", "0");
    let args: Vec<String> = std::env::args().collect();
    if args.len() < 2 {
        eprintln!("usage: llgmc <Cxx> <quick|thorough> | llgmc replay <file>");
        std::process::exit(2);
    }
    // the subject's panics are caught where they are meaningful; keep the default hook quiet
    std::panic::set_hook(Box::new(|_| {}));
    if args[1] == "c20-worker" {
        std::process::exit(props::c20::worker_main(&args[2..]));
    }
    if args[1] == "dump-validator-cases" {
        std::process::exit(props::selftest::dump_cases(&args[2]));
    }
    if args[1] == "dump-earley-cases" {
        std::process::exit(props::selftest::dump_earley_cases(&args[2]));
    }
    if args[1] == "replay" {
        std::process::exit(props::replay::replay_file(&args[2]));
    }
    let tier = match args.get(2).map(|s| s.as_str()) {
        Some("thorough") => Tier::Thorough,
        _ => Tier::Quick,
    };
    let ctx: &'static Ctx = Box::leak(Box::new(Ctx::new(&args[1], tier)));
    watchdog::start(ctx);
    let threads = std::env::var("VERIF_THREADS").ok().and_then(|s| s.parse().ok()).unwrap_or(16usize);
    rayon::ThreadPoolBuilder::new().num_threads(threads).stack_size(64 << 20).build_global().unwrap();
    if let Ok(k) = std::env::var("VERIF_SELFTEST_CRASH") {
        watchdog::selftest_crash(&k);
    }
    let cov = match props::dispatch(ctx) {
        Some(c) => c,
        None => {
            eprintln!("unknown property {}", args[1]);
            std::process::exit(2);
        }
    };
    std::process::exit(ctx.finish(cov));
}
