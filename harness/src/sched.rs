//! Controlled scheduler: real OS threads, exactly one runnable at a time; scheduling points are
//! the lock / unlock events reported by the instrumented mutexes (hook H3) plus thread start.
//! Exploration: depth-first over the choice stack, all schedules with at most `bound`
//! pre-emptions; every execution runs to completion.
use llguidance::verif_hooks::{set_sync_hook, set_thread_hook, SyncEvent};
use std::collections::HashMap;
use std::sync::{Arc, Condvar, Mutex};

#[derive(Clone, Debug, PartialEq)]
enum Status {
    NotStarted,
    Running,
    Waiting(Option<SyncEvent>),
    Finished,
}

#[derive(Clone, Debug)]
pub struct ChoicePoint {
    /// enabled threads in canonical order (running thread first if still enabled)
    pub enabled: Vec<usize>,
    pub chosen: usize,
    pub running_enabled: bool,
}

struct State {
    status: Vec<Status>,
    current: Option<usize>,
    owners: HashMap<usize, usize>,
    last: Option<usize>,
    prefix: Vec<usize>,
    trace: Vec<ChoicePoint>,
    deadlock: bool,
    abort: bool,
    events: u64,
}

pub struct Sched {
    st: Mutex<State>,
    cv: Condvar,
}

thread_local! {
    static ME: std::cell::RefCell<Option<(usize, Arc<Sched>)>> = const { std::cell::RefCell::new(None) };
}

fn hook(ev: SyncEvent) {
    let me = ME.with(|m| m.borrow().clone());
    if let Some((tid, s)) = me {
        s.point(tid, Some(ev));
    }
}

impl Sched {
    fn point(&self, tid: usize, ev: Option<SyncEvent>) {
        let mut st = self.st.lock().unwrap();
        st.events += 1;
        if let Some(SyncEvent::AfterUnlock(m)) = ev {
            st.owners.remove(&m);
        }
        st.status[tid] = Status::Waiting(ev);
        if st.current == Some(tid) {
            st.current = None;
        }
        self.cv.notify_all();
        while st.current != Some(tid) && !st.abort {
            st = self.cv.wait(st).unwrap();
        }
        if st.abort {
            drop(st);
            // leave the thread's work: unwinding is caught by the worker wrapper
            std::panic::resume_unwind(Box::new("schedule aborted (deadlock)"));
        }
        st.status[tid] = Status::Running;
    }

    fn finish(&self, tid: usize) {
        let mut st = self.st.lock().unwrap();
        st.status[tid] = Status::Finished;
        if st.current == Some(tid) {
            st.current = None;
        }
        self.cv.notify_all();
    }
}

pub struct RunResult<T> {
    pub results: Vec<Option<T>>,
    pub trace: Vec<ChoicePoint>,
    pub deadlock: bool,
    pub events: u64,
    pub panics: Vec<Option<String>>,
}

/// Run the bodies under the schedule `prefix` (then the default policy). One execution.
pub fn run_schedule<T: Send + 'static>(bodies: Vec<Box<dyn FnOnce() -> T + Send>>, prefix: &[usize]) -> RunResult<T> {
    let n = bodies.len();
    let sched = Arc::new(Sched {
        st: Mutex::new(State { status: vec![Status::NotStarted; n], current: None, owners: HashMap::new(), last: None, prefix: prefix.to_vec(), trace: vec![], deadlock: false, abort: false, events: 0 }),
        cv: Condvar::new(),
    });
    set_sync_hook(Some(hook));
    let mut handles = vec![];
    for (tid, body) in bodies.into_iter().enumerate() {
        let s = sched.clone();
        handles.push(std::thread::spawn(move || {
            ME.with(|m| *m.borrow_mut() = Some((tid, s.clone())));
            set_thread_hook(true);
            let r = std::panic::catch_unwind(std::panic::AssertUnwindSafe(|| {
                s.point(tid, None); // thread start is a scheduling point
                body()
            }));
            set_thread_hook(false);
            s.finish(tid);
            ME.with(|m| *m.borrow_mut() = None);
            r
        }));
    }
    // controller
    {
        let mut st = sched.st.lock().unwrap();
        loop {
            while st.current.is_some() || st.status.iter().any(|s| matches!(s, Status::Running | Status::NotStarted)) {
                st = sched.cv.wait(st).unwrap();
            }
            if st.status.iter().all(|s| *s == Status::Finished) {
                break;
            }
            let mut enabled: Vec<usize> = vec![];
            for (t, s) in st.status.iter().enumerate() {
                if let Status::Waiting(ev) = s {
                    let blocked = matches!(ev, Some(SyncEvent::BeforeLock(m)) if st.owners.get(m).map_or(false, |o| *o != t));
                    if !blocked {
                        enabled.push(t);
                    }
                }
            }
            if enabled.is_empty() {
                st.deadlock = true;
                st.abort = true;
                sched.cv.notify_all();
                break;
            }
            // canonical order: the thread that ran last first, if it is still enabled
            let running_enabled = st.last.map_or(false, |l| enabled.contains(&l));
            if let (true, Some(l)) = (running_enabled, st.last) {
                enabled.retain(|t| *t != l);
                enabled.insert(0, l);
            }
            let pos = st.trace.len();
            let idx = if pos < st.prefix.len() { st.prefix[pos] } else { 0 };
            assert!(idx < enabled.len(), "schedule replay diverged: choice {idx} of {} at point {pos}", enabled.len());
            let t = enabled[idx];
            st.trace.push(ChoicePoint { enabled: enabled.clone(), chosen: idx, running_enabled });
            if let Status::Waiting(Some(SyncEvent::BeforeLock(m))) = st.status[t] {
                st.owners.insert(m, t);
            }
            st.current = Some(t);
            st.last = Some(t);
            st.status[t] = Status::Running;
            sched.cv.notify_all();
        }
    }
    let mut results = vec![];
    let mut panics = vec![];
    for h in handles {
        match h.join() {
            Ok(Ok(v)) => {
                results.push(Some(v));
                panics.push(None);
            }
            Ok(Err(e)) => {
                results.push(None);
                let msg = e.downcast_ref::<&str>().map(|s| s.to_string()).or_else(|| e.downcast_ref::<String>().cloned()).unwrap_or("panic".into());
                panics.push(Some(msg));
            }
            Err(_) => {
                results.push(None);
                panics.push(Some("thread join failed".into()));
            }
        }
    }
    set_sync_hook(None);
    let st = sched.st.lock().unwrap();
    RunResult { results, trace: st.trace.clone(), deadlock: st.deadlock, events: st.events, panics }
}

pub struct ExploreOut {
    pub schedules: u64,
    pub max_points: usize,
    pub with_preemption: u64,
    pub lock_contended_points: u64,
}

/// All schedules with at most `bound` pre-emptions. `mk` builds fresh bodies for every
/// execution; `check` judges one execution (return false to stop).
pub fn explore_schedules<T: Send + 'static>(
    bound: usize,
    max_schedules: u64,
    deadline: Option<std::time::Instant>,
    mk: &mut dyn FnMut() -> Vec<Box<dyn FnOnce() -> T + Send>>,
    check: &mut dyn FnMut(&RunResult<T>, &[usize]) -> bool,
) -> (ExploreOut, bool) {
    let mut out = ExploreOut { schedules: 0, max_points: 0, with_preemption: 0, lock_contended_points: 0 };
    let mut stack: Vec<Vec<usize>> = vec![vec![]];
    let mut complete = true;
    while let Some(prefix) = stack.pop() {
        if out.schedules >= max_schedules || deadline.map_or(false, |d| out.schedules > 0 && std::time::Instant::now() > d) {
            complete = false;
            break;
        }
        let r = run_schedule(mk(), &prefix);
        out.schedules += 1;
        out.max_points = out.max_points.max(r.trace.len());
        let choices: Vec<usize> = r.trace.iter().map(|c| c.chosen).collect();
        let preempts = |upto: usize| -> usize { r.trace[..upto].iter().filter(|c| c.running_enabled && c.chosen != 0).count() };
        if preempts(r.trace.len()) > 0 {
            out.with_preemption += 1;
        }
        if !check(&r, &choices) {
            return (out, false);
        }
        for i in prefix.len()..r.trace.len() {
            let p = &r.trace[i];
            let before = preempts(i);
            for alt in 1..p.enabled.len() {
                let cost = before + if p.running_enabled { 1 } else { 0 };
                if cost > bound {
                    continue;
                }
                let mut np = choices[..i].to_vec();
                np.push(alt);
                stack.push(np);
            }
        }
    }
    (out, complete)
}
