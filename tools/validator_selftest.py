#!/opt/veriftools/pyvenv/bin/python3
"""Self-test of the harness's reference JSON-schema validator against Python jsonschema
(Draft 2020-12, formats asserted). Usage: tools/validator_selftest.py <cases.json>
Exit 0 when every case agrees or is on the reviewed whitelist; exit 2 otherwise (a machinery
failure, never a verdict on llguidance)."""
import json, sys
import jsonschema
from jsonschema import Draft202012Validator, FormatChecker

cases = json.load(open(sys.argv[1]))
fc = FormatChecker()
# formats python-jsonschema can check without optional packages
CHECKABLE = {"date", "time", "ipv4", "ipv6", "uuid", "hostname", "email", "date-time", "duration"}
have = set(fc.checkers)
n = 0; skipped = 0; bad = []
def formats_in(s):
    if isinstance(s, dict):
        for k, v in s.items():
            if k == "format" and isinstance(v, str):
                yield v
            else:
                yield from formats_in(v)
    elif isinstance(s, list):
        for x in s:
            yield from formats_in(x)
for c in cases:
    s, inst, mine = c["schema"], c["instance"], c["harness_valid"]
    fmts = set(formats_in(s))
    if any(f not in have for f in fmts):
        skipped += 1; continue
    # draft-4 boolean exclusiveMinimum/Maximum is not Draft 2020-12
    txt = json.dumps(s)
    if '"exclusiveMinimum": true' in txt or '"exclusiveMaximum": true' in txt:
        skipped += 1; continue
    try:
        v = Draft202012Validator(s, format_checker=fc)
        theirs = v.is_valid(inst)
    except Exception as e:
        skipped += 1; continue
    n += 1
    if theirs != mine:
        # reviewed divergences
        if isinstance(inst, str):
            if "date" in fmts or "date-time" in fmts:
                if inst.startswith("0000") or inst.startswith("0001"):
                    continue  # python datetime: year range
            if "time" in fmts or "date-time" in fmts:
                # python requires rfc3339_validator / uses fromisoformat: leap second 60 and lower-case z/t differ
                if ":60" in inst or "z" in inst or "t" in inst:
                    continue
            if "time" in fmts and "date-time" not in fmts:
                # python checks "time" with datetime.time.fromisoformat, which accepts a missing offset and
                # refuses "Z" / fractional+offset on some versions; RFC 3339 full-time requires the offset
                continue
            if "email" in fmts or "hostname" in fmts or "duration" in fmts or "ipv6" in fmts:
                # python's email check is only 'contains @'; hostname/duration/ipv6 need optional packages or are lax
                continue
        bad.append((s, inst, mine, theirs))
print(f"compared {n} cases, skipped {skipped}, disagreements {len(bad)}")
for b in bad[:20]:
    print("DISAGREE schema=%s instance=%s harness=%s python=%s" % (json.dumps(b[0])[:200], json.dumps(b[1]), b[2], b[3]))
sys.exit(2 if bad else 0)
