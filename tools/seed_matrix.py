#!/usr/bin/env python3
"""Apply every kept seeded mutant to /repo, run the listed checks (quick tier), revert, and
record the outcome in seeded/<id>/meta.json. Usage: tools/seed_matrix.py [seed-id ...]"""
import json, os, subprocess, sys, glob
NEEDS = {
 "C01-a": ("C01", "just_push_row keeps rows_valid_end at its maximum, so a re-scanned Earley row no longer invalidates deeper speculative rows: needs multi-byte tokens crossing >= 2 lexeme boundaries, two sibling trie branches ending different lexemes at depth R and the same lexeme at R+1, and a grammar where what follows depends on the first lexeme (also breaks C02, C05)", ["C01", "C02", "C05"]),
 "C02-b": ("C02", "TrieBuilder::insert no longer recognises duplicate multi-byte tokens below the root: a lower-id duplicate of a token of length >= 2 is never in the mask although its bytes are allowed", ["C02", "C01", "C16"]),
 "C03-a": ("C03", "RegexVec::transition_inner runs the emptiness (relevance) check only for single-regex lexer states: an intersection lexeme (integer range + multipleOf, /a/ & /b/) in a row where another lexeme is live admits a first byte with no completion -> empty mask in a non-accepting state", ["C03"]),
 "C04-a": ("C04", "suffix automaton clone gets the wrong length: %regex substring accepts non-contiguous strings; needs a source with the same chunk >= 3 times in a row followed by an earlier chunk (>= 5 chunks)", ["C04"]),
 "C05-b": ("C05", "repeat_exact() looks up at_most_cache: r{k} becomes r{0,k} when r{0,k} (same named rule, same count) was built earlier in the grammar", ["C05", "C09"]),
 "C06-a": ("C06", "enum/const string literals are length-checked in bytes: a non-ASCII enum member with minLength between its char and byte count is emitted though invalid", ["C06"]),
 "C07-a": ("C07", "Schema::intersect pads the second operand's prefixItems with the first operand's items: a $ref/anyOf/enum/const tuple with items:false followed by sibling array keywords loses valid instances", ["C07", "C06"]),
 "C08-a": ("C08", "rx_float_range drops the left_inclusive conjunct: an exclusive integer lower bound sharing the integer part with the upper bound admits the bare integer (exclusiveMinimum 1, maximum 1.5 accepts 1)", ["C08"]),
 "C09-a": ("C09", "at_most() recursion uses (n-1)/K: rule-level x{m,n} with n-m >= 12 and (n-m)%4 in {1,2} accepts n+1 (n+2) repetitions", ["C09"]),
 "C10-a": ("C10", "subsume_possible() no longer refuses slicing when a lazy lexeme is live: needs a lazy lexeme next to a permissive greedy one and a multi-byte token whose proper prefix completes the lazy lexeme", ["C10", "C01", "C02"]),
 "C11-a": ("C11", "compute_bias stores the mask computed with a non-empty token-healing prefix in the bias cache: needs a canonical multi-byte vocabulary with a token extending another, a forced literal, and the sequence mask / commit exactly that token / mask", ["C11", "C12", "C13", "C01"]),
 "C12-a": ("C12", "rollback resets last_force_bytes_len only when forced bytes were pending: needs forced-bytes computation at length L, rollback below L, no observation, and a different continuation returning to length L where bytes are forced", ["C12", "C11"]),
 "C13-a": ("C13", "ff_tokens() drains a stale count on the re-tokenize path: first forced token dropped; needs multi-byte canonical vocabulary, a sampled token followed by forced bytes with a vocabulary token spanning the boundary", ["C13", "C01"]),
 "C14-a": ("C14", "insert_state sets the lazy lowest-match flag only for newly created states: which route into a lazy accepting state is flagged depends on which clone explored the shared lexer first", ["C14"]),
 "C15-a": ("C15", "expand_shortcuts treats a single guarded rule 'sym::_ : trg::_ %if cond' as an alias and drops the guard: needs a parametric grammar with such a pass-through rule", ["C15", "C05"]),
 "C16-a": ("C16", "add_bias marks prefixes of `start` via all_prefixes(): duplicate token ids that are prefixes of a non-empty start are dropped", ["C16"]),
 "C17-a": ("C17", "llg_par_compute_mask ORs the EOS bit with eos/32 <= mask_elts: one word past a destination that is exactly eos/32 words long, only at the stop step", ["C17"]),
 "C18-a": ("C18", "check_stop compares the last token with the primary EOS only: a secondary EOS accepted in an accepting, extensible state does not stop the engine; needs a multi-EOS vocabulary", ["C18"]),
 "C19-a": ("C19", "force_bytes: 'break' instead of \"break 'spec\" when two different singleton token ids are seen: with an odd number >= 3 of single-token alternatives one is forced; needs a canonical tokenizer", ["C19", "C13"]),
 "C20-a": ("C20", "nested %lark { } inside a [stop=...] attribute inherits nesting_level instead of +1: ~200 levels overflow the stack and abort the process", ["C20"]),
 "C01-b": ("C01", "TokenizerSlice::from_topo_node builds trie_without_child[i] from the running accumulator (minus children 0..=i): with the default slices the mask omits pure-blank tokens containing \\t \\n \\r whenever the lexeme subsumes the JSON string-character slice but not the whitespace slice (/[^\\r]*/, line comments, text next to /\\t+/)", ["C01", "C10"]),
 "C06-b": ("C06", "intersect_pattern_properties returns the left operand's patternProperties unchanged when the right operand has none: patterns of the earlier allOf / $ref branch are not intersected with the later branch's additionalProperties (false or typed), so {\"x1\":5} is admitted", ["C06"]),
 "C07-b": ("C07", "NumberSchema::get_maximum always reports the upper bound as exclusive when maximum and exclusiveMaximum are both present with maximum < exclusiveMaximum: the instance equal to maximum is refused (side by side or via $ref/anyOf + sibling)", ["C07", "C08"]),
 "C12-b": ("C12", "ParserState::rollback returns early when n_bytes == 0: rolling back exactly an EOS token committed while a greedy lexeme was pending does not undo the lexeme flush of scan_eos(); the mask no longer extends the lexeme", ["C12", "C11"]),
 "C14-b": ("C14", "Parser::with_shared drops the mutex guard right after taking the shared lexer out of its slot: a sibling clone entering any call between take and put-back finds None (panic / poisoned mutex); needs two shallow clones overlapping on different threads with a switch at the unlock", ["C14"]),
 "C16-b": ("C16", "SimpleVob::clear_excessive_bits works word-wise and skips the word at size/32 when size % 32 == 0: a set with spare capacity (alloc_token_set: vocab+1 bits) shows ids vocab..vocab+31 after set_all(true) / negated() when the vocabulary size is a multiple of 32", ["C16"]),
 "C18-b": ("C18", "StopController::commit_token_u8 no longer resets the stop-regex state at a special token: a half-matched stop string survives a special token and completes after it, cutting text that contains no stop", ["C18"]),
 "C20-b": ("C20", "TokenParser::rollback skips parser.rollback when bytes_to_drop == 0: rolling back exactly an EOS committed with a greedy lexeme open leaves the flushed lexer-stack entry; a later commit + EOS panics (lexer_stack/bytes mismatch) and the matcher latches an internal error", ["C20", "C12", "C11"]),
 "C02-c": ("C02", "the one-entry mask cache of ParserState::compute_bias no longer keys on row_idx: after compute_mask, a token crossing a lexeme boundary that lands in the same lexer state in a later Earley row gets the stale mask (NAME \"=\" NAME \";\" with token \"=b\"); byte-at-a-time histories are unaffected", ["C02", "C01", "C11"]),
 "C03-c": ("C03", "check_number_bounds uses trunc() instead of floor() for the upper multiple: a two-sided range with a negative non-multiple maximum and no multiple inside ([-11,-7] multipleOf 6) compiles into a lexeme with an empty language: empty mask at the top level, dead end after allowed tokens when nested", ["C03", "C08"]),
 "C04-c": ("C04", "forced_byte() tries only 255 of the 256 candidates: the byte just below the lexer's hint is never tried, so with forcing on (canonical tokenizer) b?a / b*a / 1{0,2}0 force the hint byte although a second byte is legal (b*a then forces forever: memory blow-up)", ["C04", "C13"]),
 "C05-c": ("C05", "process_agenda skips prediction of a symbol already predicted in the current Earley set and with it the nullable-advance step: a named nullable rule directly after the dot in two items of one set loses the empty derivation in the second (start: a \"c\" | a \"d\"; a: \"x\"?)", ["C05"]),
 "C08-c": ("C08", "normalize_integer_bounds drops floor() on integer maximum / exclusiveMaximum and relies on `as i64` (truncation toward zero): a negative non-integer upper bound admits trunc(max) and integer-free intervals compile", ["C08"]),
 "C09-c": ("C09", "gen_json_array: n_to_add = max_items.unwrap_or(min_items).max(prefix_len): maxItems smaller than the number of prefixItems admits up to len(prefixItems) elements", ["C09", "C06"]),
 "C10-c": ("C10", "TokenizerSlice::trie_apply walks an un-applied sibling slice with trie_without_children: tokens of that sibling's sub-slices are dropped; needs a slice node with >= 3 children, two subsumed, the third not and owning a sub-slice (the default JSON slices never reach it)", ["C10"]),
 "C11-c": ("C11", "compute_bias stores the mask in bias_cache before the special-token range pass and the lexer-level EOS allowance: a second mask in the same state (or later in the same greedy lexeme) lacks the special token / EOS; needs a grammar position where a special token is admissible", ["C11", "C12", "C19"]),
 "C13-c": ("C13", "TokTrie::chop_tokens returns the healing-suffix length instead of the byte span of the removed tokens: process_prompt loses text and the mask after ff tokens is computed for the wrong position; needs a multi-byte vocabulary where the longest extendable suffix of the forced text starts inside a canonical token", ["C13", "C01"]),
 "C15-c": ("C15", "uf_find's path compression starts at map[e]: the head of a 2+-hop alias chain keeps pointing at an intermediate alias and expand_shortcuts asserts; needs a JSON $ref -> $ref -> schema chain whose head is used twice (or head and link once each)", ["C15", "C06"]),
 "C17-c": ("C17", "llg_par_compute_mask zero-fills the caller buffer only when a sample mask exists: at the stop step (or on error) the buffer keeps its previous contents and the EOS bit is OR-ed into them; needs the parallel API at the stop step with a non-zero buffer", ["C17"]),
 "C19-c": ("C19", "negated_token_ranges: `end <= current` instead of `end < current`: an excluded range ending exactly at the first not-yet-covered id is skipped, so <[^0]> allows 0, <[^65,66]> allows 66", ["C19"]),
 "C03-d": ("C03", "json/compiler.rs always_non_empty() treats RegexAst::And like Concat: an intersection of conflicting string constants (allOf of consts, const + enum, disjoint enums) in an optional position is not pruned and compiles to a lexeme with an empty language: dead end after the key and ':'", ["C03"]),
 "C06-d": ("C06", "gen_json_object reserves a patternProperties key regex only after its value schema compiled: an unsatisfiable pattern schema (false, or emptied by an intersection) no longer excludes its keys from additionalProperties, so {\"x_a\":1} is admitted under {\"^x_\": false}", ["C06"]),
 "C07-d": ("C07", "GrammarBuilder::string() keys its literal cache by the name truncated to 20 bytes: two property names (or literals) sharing their first 20 bytes get the same lexeme; the valid instance is refused where the second key differs", ["C07", "C06"]),
 "C12-d": ("C12", "TokenParser::rollback treats only the primary EOS as a zero-byte token: rolling back a secondary EOS (multi-EOS vocabulary) drops 6 parser bytes too many", ["C12", "C11", "C18"]),
 "C13-d": ("C13", "forced_byte(): the is_accepting() guard runs after the lexer's ForcedByte quick path: at an accepting lexeme boundary where every optional continuation starts with the same byte that byte is forced and the shorter complete output is lost (\"ab\" tail?)", ["C13", "C01"]),
 "C14-d": ("C14", "is_accepting() keeps a one-entry cache in SharedState (shared by plain clones) keyed by lexer state / row / pending bytes: a clone at the same row with a different history gets its sibling's answer (EOS bit, stop); needs sibling histories of equal length differing in acceptance and the sibling's query last", ["C14"]),
 "C16-d": ("C16", "greedy_tokenize resumes after the longest trie path instead of the longest token: bytes between them are dropped when a proper prefix of a token is not itself a token and the text leaves that path", ["C16"]),
 "C18-d": ("C18", "same site as C12-d, found independently: rollback over a secondary EOS rewinds the parser behind the committed tokens or fails permanently", ["C18", "C12"]),
 "C01-e": ("C01", "validate_tokens: applied_idx also advances for speculatively pushed bytes, so the EOS test fails later in the same call: validate_tokens([.., t, EOS]) stops short of an EOS that is in the mask and commits; needs a multi-token validate call with EOS at position >= 1 after a non-forced byte", ["C01"]),
 "C02-e": ("C02", "check_subsume caches positive (lexeme, slice) answers ignoring the lexeme's current derivative: once a slice was subsumed, its whole token mask is ORed in for every later state of that lexeme (after a backslash in a JSON string, near maxLength); the mask allows tokens byte-wise feeding rejects", ["C02", "C10", "C01"]),
 "C04-e": ("C04", "check_subsume tests slice containment against each lexeme's original regex instead of its current derivative: with slices on, a regex that starts with a broad repeated class keeps allowing the slice's tokens after the lexeme moved past it ([^\"]*\"[a-z]+, \\s*[0-9]+)", ["C04", "C10"]),
 "C05-e": ("C05", "add_unique_arg drops the parameter from the Earley-item uniqueness key: the same dotted rule with the same origin cannot sit in one set with two parameter values, so parametric grammars under-accept (start: x::1 | x::2)", ["C05"]),
 "C15-e": ("C15", "expand_shortcuts tests the referencing rule's condition instead of the inlined symbol's own: a symbol whose only rule is guarded (%if) and that is referenced once with the unchanged parameter is inlined without its guard", ["C15"]),
 "C17-e": ("C17", "llg_matcher_compute_mask returns early when a saved mask exists and llg_matcher_reset no longer clears it: compute_mask, reset, compute_mask, get_mask returns the pre-reset mask (each change alone is harmless)", ["C17"]),
 "C19-e": ("C19", "compute_bias adds the token-reference ranges whenever the grammar has token references, also with a non-empty pending prefix: the special token is in the mask while forced text is still pending, and commit rejects it", ["C19"]),
 "C20-e": ("C20", "ParamExpr::eval: the saturation test of incr([x:y]) only fires for fields starting at bit 0: a field ending at bit 64 overflows u64 (panic in the checked build, wrap otherwise), a mid-word field carries into its neighbour; needs an unguarded incr on such a field and enough commits to saturate it", ["C20", "C05"]),
}
ids = sys.argv[1:] or sorted(NEEDS)
for sid in ids:
    prop, needs, checks = NEEDS[sid]
    d = f"/verif/seeded/{sid}"
    if not os.path.exists(d + "/patch.diff"):
        print("missing", sid); continue
    res = {}
    out = subprocess.run(["/verif/tools/try_mutant.sh", d + "/patch.diff"] + checks, capture_output=True, text=True).stdout
    for line in out.splitlines():
        if line.startswith("RESULT:"):
            for kv in line.split()[1:]:
                k, v = kv.split("=")
                res[k] = {"0": "not detected", "1": "detected (VIOLATION)", "2": "machinery error", "3": "patch did not apply"}.get(v, v)
    conf = json.load(open(d + "/confirm.json")) if os.path.exists(d + "/confirm.json") else {}
    meta = {"id": sid, "breaks_property": prop, "needs_to_manifest": needs,
            "origin": "independent sub-agent given only the property text and a scratch worktree of /repo",
            "confirmed_by_me": {"repo_suite_with_patch": f"{conf.get('suite',{}).get('baseline_passing_with_patch')} of {conf.get('suite',{}).get('baseline')} stable tests pass (cargo test --workspace --no-fail-fast --offline)",
                                "demo_with_patch_exit": conf.get("demo_rc_with_patch"), "demo_without_patch_exit": conf.get("demo_rc_without_patch"),
                                "command": "tools/confirm_seed.sh"},
            "checks_run": {"command": "tools/try_mutant.sh seeded/%s/patch.diff %s (quick tier)" % (sid, " ".join(checks)), "results": res}}
    json.dump(meta, open(d + "/meta.json", "w"), indent=1)
    print(sid, res, flush=True)
