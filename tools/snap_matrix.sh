#!/bin/bash
# tools/snap_matrix.sh [seed-id ...]: run tools/seed_matrix.py on a detached copy of the harness with its own
# worktree of /repo, its own target directories and its own output directory (/tmp/snap), so that /repo,
# /verif/evidence and the main target directories stay untouched while other work goes on. The copy is
# removed at the end (only seeded/<id>/meta.json is updated).
set -u
SNAP=${SNAP_DIR:-/tmp/snap}
git -C /repo worktree remove --force $SNAP/repo 2>/dev/null
rm -rf $SNAP; mkdir -p $SNAP/out $SNAP/verif
git -C /repo worktree add --detach $SNAP/repo HEAD >/dev/null 2>&1 || exit 2
cp -r /verif/harness /verif/corpus $SNAP/verif/
sed -i "s#\"/repo/#\"$SNAP/repo/#" $SNAP/verif/harness/Cargo.toml
cat > $SNAP/check <<EOS
#!/bin/bash
cd $SNAP/verif/harness || exit 2
export CARGO_NET_OFFLINE=true RUST_BACKTRACE=0 RUST_LIB_BACKTRACE=0 RUSTFLAGS="--cfg llg_verif" VERIF_OUT_DIR=$SNAP/out
CARGO_TARGET_DIR=$SNAP/target-main cargo build --release --offline >$SNAP/build.log 2>&1 || { echo "MACHINERY-ERROR build failed"; tail -20 $SNAP/build.log; exit 2; }
if [ "\$1" = C20 ] || [ "\$1" = C16 ]; then
  CARGO_TARGET_DIR=$SNAP/target-ovf cargo build --profile ovf --offline >$SNAP/build2.log 2>&1 || { echo "MACHINERY-ERROR ovf build failed"; exit 2; }
  export LLGMC_OVF_BIN=$SNAP/target-ovf/ovf/llgmc
fi
cd $SNAP
exec $SNAP/target-main/release/llgmc "\$@"
EOS
chmod +x $SNAP/check
REPO_DIR=$SNAP/repo CHECK_CMD=$SNAP/check /verif/tools/seed_matrix.py "$@"
git -C /repo worktree remove --force $SNAP/repo
rm -rf $SNAP
