#!/bin/bash
# tools/confirm_seed.sh <seed-id> <worktree>: confirm a sub-agent's mutant independently:
#  with the patch: repo's offline suite still passes (125 stable tests) and the demo FAILS;
#  without the patch: the demo PASSES. Stores the artefacts under /verif/seeded/<id>/.
ID=$1; WT=$2
OUT=/verif/seeded/$ID; mkdir -p $OUT
cd $WT || exit 2
export CARGO_TARGET_DIR=$WT/target CARGO_NET_OFFLINE=true
unset RUSTFLAGS
cp _out/patch.diff $OUT/patch.diff
DEMO=$(ls parser/tests/seeded_demo.rs toktrie/tests/seeded_demo.rs toktrie_hf_tokenizers/tests/seeded_demo.rs toktrie_tiktoken/tests/seeded_demo.rs 2>/dev/null | head -1)
cp $DEMO $OUT/seeded_demo.rs
PKG=$(echo $DEMO | cut -d/ -f1); [ "$PKG" = parser ] && PKG=llguidance
# make sure the patch is exactly what is applied
git checkout -q -- . ; git apply _out/patch.diff || { echo "patch does not apply"; exit 2; }
cargo test --workspace --no-fail-fast --offline > $OUT/with_patch.log 2>&1
python3 - $OUT/with_patch.log > $OUT/with_patch.summary <<'PY'
import json,re,sys
out=open(sys.argv[1],errors='replace').read()
base=set(json.load(open('/root/.vp/BASELINE.json'))['stable_pass'])
ok=set(m.group(1) for m in re.finditer(r'^test (\S+)(?: - should panic)? \.\.\. ok',out,re.M))
failed=set(m.group(1) for m in re.finditer(r'^test (\S+) \.\.\. FAILED',out,re.M))
missing=[b for b in base if not any(b.endswith('::'+n) for n in ok)]
print(json.dumps({"baseline":len(base),"baseline_passing_with_patch":len(base)-len(missing),"missing":missing[:10]}))
PY
cargo test -p $PKG --test seeded_demo --offline > $OUT/demo_with_patch.log 2>&1; RC_WITH=$?
git apply -R _out/patch.diff
cargo test -p $PKG --test seeded_demo --offline > $OUT/demo_without_patch.log 2>&1; RC_WITHOUT=$?
git apply _out/patch.diff
cp _out/notes.md $OUT/notes.md 2>/dev/null
echo "{\"id\":\"$ID\",\"demo_rc_with_patch\":$RC_WITH,\"demo_rc_without_patch\":$RC_WITHOUT,\"suite\":$(cat $OUT/with_patch.summary)}" > $OUT/confirm.json

cat $OUT/confirm.json
