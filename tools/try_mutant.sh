#!/bin/bash
# tools/try_mutant.sh <patch.diff> <Cxx> [quick|thorough] ...  -- apply a patch to /repo, run checks, always revert.
P=$1; shift
if ! git -C /repo diff --quiet; then echo "/repo working tree is dirty; refusing"; exit 3; fi
if ! git -C /repo apply "$P" 2>/dev/null && ! git -C /repo apply -C1 "$P" 2>/dev/null && ! (cd /repo && patch -p1 -s -F3 < "$P"); then echo "patch does not apply"; git -C /repo checkout -- .; exit 3; fi
find /repo -name "*.orig" -newer "$P" -delete 2>/dev/null
trap 'git -C /repo checkout -- . ; git -C /repo clean -fdq parser/tests toktrie/tests 2>/dev/null' EXIT
TIER=quick
RES=""
for a in "$@"; do
  if [ "$a" = quick ] || [ "$a" = thorough ]; then TIER=$a; continue; fi
  OUT=$(cd /verif && ./check "$a" $TIER 2>&1); RC=$?
  echo "$OUT" | grep -E "VIOLATION|KNOWN-FINDING|MACHINERY|^C[0-9]+ " | head -6
  RES="$RES $a=$RC"
done
echo "RESULT:$RES"
