#!/bin/bash
# tools/try_mutant.sh <patch.diff> <Cxx> [quick|thorough] ...  -- apply a patch to the repository, run checks, always revert.
# REPO_DIR (default /repo) and CHECK_CMD (default /verif/check) let tools/snap_matrix.sh run this on a detached copy.
P=$1; shift
REPO=${REPO_DIR:-/repo}
CHECK=${CHECK_CMD:-/verif/check}
if ! git -C $REPO diff --quiet; then echo "$REPO working tree is dirty; refusing"; exit 3; fi
if ! git -C $REPO apply "$P" 2>/dev/null && ! git -C $REPO apply -C1 "$P" 2>/dev/null && ! (cd $REPO && patch -p1 -s -F3 < "$P"); then echo "patch does not apply"; git -C $REPO checkout -- .; exit 3; fi
find $REPO -name "*.orig" -newer "$P" -delete 2>/dev/null
trap 'git -C $REPO checkout -- . ; git -C $REPO clean -fdq parser/tests toktrie/tests 2>/dev/null' EXIT
TIER=quick
RES=""
for a in "$@"; do
  if [ "$a" = quick ] || [ "$a" = thorough ]; then TIER=$a; continue; fi
  OUT=$($CHECK "$a" $TIER 2>&1); RC=$?
  echo "$OUT" | grep -E "VIOLATION|KNOWN-FINDING|MACHINERY|^C[0-9]+ " | head -6
  RES="$RES $a=$RC"
done
echo "RESULT:$RES"
