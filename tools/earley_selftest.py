#!/opt/veriftools/pyvenv/bin/python3
"""Self-test of the harness's reference Earley recogniser (refs/cfg_earley.rs) against Python
lark's Earley parser (dynamic_complete lexer = scannerless, all tokenisations).
Usage: tools/earley_selftest.py <cases.json>. Exit 0 when every (grammar, string) verdict agrees,
2 otherwise (machinery failure, never a verdict on llguidance)."""
import json, sys, multiprocessing, signal
from lark import Lark
from lark.exceptions import UnexpectedInput, LarkError

data = json.load(open(sys.argv[1]))
STRINGS = data["strings"]

class TO(Exception):
    pass

def _alarm(sig, frm):
    raise TO()

def work(case):
    signal.signal(signal.SIGALRM, _alarm)
    try:
        signal.alarm(20)
        p = Lark(case["grammar"], parser="earley", lexer="dynamic_complete", start="start", ambiguity="forest")
    except TO:
        return ("skip", case["llg_lark"], "timeout building")
    except Exception as e:
        signal.alarm(0)
        return ("skip", case["llg_lark"], "lark refused: %s" % str(e)[:100])
    signal.alarm(0)
    acc = set(case["accepted"])
    bad = []
    n = 0
    for s in STRINGS:
        try:
            signal.alarm(10)
            try:
                p.parse(s)
                ok = True
            except UnexpectedInput:
                ok = False
            signal.alarm(0)
        except TO:
            continue
        except RecursionError:
            signal.alarm(0)
            continue
        except LarkError as e:
            signal.alarm(0)
            continue
        n += 1
        if ok != (s in acc):
            bad.append((s, s in acc, ok))
    return ("done", case["llg_lark"], n, bad)

if __name__ == "__main__":
    sys.setrecursionlimit(10000)
    with multiprocessing.Pool(16) as pool:
        res = pool.map(work, data["cases"], chunksize=8)
    compared = sum(r[2] for r in res if r[0] == "done")
    skipped = [r for r in res if r[0] == "skip"]
    bad = [(r[1], b) for r in res if r[0] == "done" for b in r[3]]
    print(f"grammars {len(res)} (skipped {len(skipped)}), verdicts compared {compared} of {len(res)*len(STRINGS)}, disagreements {len(bad)}")
    for s in skipped[:5]:
        print("SKIP", s[1].replace("\n", " ; "), "--", s[2])
    for g, (s, mine, theirs) in bad[:20]:
        print("DISAGREE grammar=%s string=%r harness=%s lark=%s" % (g.replace("\n", " ; "), s, mine, theirs))
    sys.exit(2 if bad or compared == 0 else 0)
