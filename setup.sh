#!/bin/bash
# Offline build of the harness binaries (all crates come from the cargo cache on disk).
set -e
cd /verif/harness
export CARGO_NET_OFFLINE=true
mkdir -p /verif/target-main /verif/evidence /verif/replays
CARGO_TARGET_DIR=/verif/target-main RUSTFLAGS="--cfg llg_verif" cargo build --release --offline
CARGO_TARGET_DIR=/verif/target-ovf RUSTFLAGS="--cfg llg_verif" cargo build --profile ovf --offline
echo setup ok
