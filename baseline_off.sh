#!/bin/bash
# Runs the repository's own suite with the verification guard OFF (no --cfg llg_verif) and
# checks that every test of BASELINE.json's stable_pass list passes.
cd /repo || exit 2
unset RUSTFLAGS
export CARGO_NET_OFFLINE=true
OUT=$(mktemp)
rm -f /repo/target/nextest/pb/junit.xml
if [ -f /w/lib/nextest.toml ] && command -v cargo-nextest >/dev/null; then
  cargo nextest run --workspace --no-fail-fast --tool-config-file pb:/w/lib/nextest.toml --profile pb --test-threads 8 --offline >"$OUT" 2>&1
else
  cargo test --workspace --no-fail-fast --offline >"$OUT" 2>&1
fi
python3 - "$OUT" <<'PY'
import json,re,sys
out=open(sys.argv[1],errors='replace').read()
base=json.load(open('/root/.vp/BASELINE.json'))['stable_pass']
passed=set()
# nextest: "PASS [ 0.01s] crate::bin test::path" ; cargo test: "test path ... ok"
for m in re.finditer(r'^\s*PASS\s+\[[^\]]*\]\s+(\S+)\s+(\S+)',out,re.M):
    passed.add(m.group(2)); passed.add(m.group(1).split('::')[0]+'::'+m.group(2))
for m in re.finditer(r'^test (\S+) \.\.\. ok',out,re.M):
    passed.add(m.group(1))
import glob, xml.etree.ElementTree as ET, os
for fn in glob.glob('/repo/target/nextest/pb/junit.xml'):
    try:
        root=ET.parse(fn).getroot()
    except Exception:
        continue
    for tc in root.iter('testcase'):
        if tc.find('failure') is None and tc.find('error') is None and tc.find('skipped') is None:
            passed.add((tc.get('classname') or '')+'::'+(tc.get('name') or ''))
            passed.add(tc.get('name') or '')
missing=[b for b in base if b not in passed and b.split('::',1)[-1] not in passed]
print(f"baseline stable_pass={len(base)} passing_now={len(base)-len(missing)}")
if missing:
    print("MISSING:",missing[:20]); sys.exit(1)
PY
RC=$?
rm -f "$OUT"
exit $RC
